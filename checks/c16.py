"""C16 - PSI sections are reassembled, routed and joined without loss.

1. TLC checks the detailed model of upipe_ts_psi_merge (spec/PsiSections.tla:
   generator of well-formed cuttings + transcription of the merger + abstract
   section-level reference) and of upipe_ts_psi_split / upipe_ts_psi_join
   (spec/PsiSectionsRoute.tla) exhaustively for small bounds, with a coverage
   guard, and must reject the negative variants.
2. spec -> code: the behaviours TLC emits (exhaustive for tiny bounds,
   -simulate for small and for real sizes up to 4096 octets, counterexamples
   of the negative variants) are executed on the real pipes by
   harness/replay_psi.c (ASan + UBSan) and compared with what the detailed
   model predicts (outputs per payload, octets when small, deliveries).
3. code -> spec: seeded random section lists, cuttings (pointer fields,
   several sections per payload, stuffing, cuts inside the header, gaps,
   flagged discontinuities, corrupt headers, segmented buffers), filter sets
   and input sets are executed and every recorded execution - including the
   replayed behaviours of 2 - is validated by spec/PsiSections_Trace.tla
   (abstract definitions only).
A violation is reported only for an execution of the real code that the trace
specification rejects twice (re-run before reporting).  A difference with
the detailed model that the abstract specification accepts is model drift.
"""
import json, os, re, sys, threading, time
import vlib

T0 = time.time()


def tick(msg):
    if os.environ.get("C16_TIMING"):
        sys.stderr.write("[c16 %6.1fs] %s\n" % (time.time() - T0, msg))

LEVEL = "model_checking"
SRCS = ["replay_psi.c", "lib/upipe/umem_alloc.c", "lib/upipe/udict_inline.c", "lib/upipe/uref_std.c",
        "lib/upipe/ubuf_block_mem.c", "lib/upipe/ubuf_mem_common.c", "lib/upipe/uprobe.c",
        "lib/upipe-ts/upipe_ts_psi_merge.c", "lib/upipe-ts/upipe_ts_psi_split.c",
        "lib/upipe-ts/upipe_ts_psi_join.c"]
FLAGS = ["-I", vlib.HARNESS + "/shim", "-Wl,--wrap=malloc"]
TRACE = ("PsiSections_Trace", "PsiSections_Trace.cfg")
PIPECMD = {"merge": "merger", "split": "splitter", "join": "joiner"}


# ------------------------------------------------------------- executions
class Exe:
    """One execution: a section table, the commands for the harness (a step
    without command is a payload lost before the merger) and, after the run,
    the events recorded."""
    def __init__(self, pipe, secs, steps, source, reset=None, pred=None):
        self.pipe = pipe
        self.secs = secs            # [[len, tid, syn, ff, bad], ...]
        self.steps = steps          # [{"cmd": str|None, "ev": {...}}]
        self.source = source
        self.reset = dict(reset or {})
        self.pred = pred            # per step: what the detailed model predicts (spec -> code)
        self.events = None
        self.results = None

    def script(self, i):
        lines = ["exec %d" % i]
        for k, s in enumerate(self.secs):
            lines.append("sec %d %d %d %d %d %d" % (k + 1, s[0], s[1], s[2], s[3], s[4]))
        lines.append(PIPECMD[self.pipe])
        lines += [st["cmd"] for st in self.steps if st["cmd"]]
        lines.append("end")
        return "\n".join(lines) + "\n"

    def to_json(self):
        return {"pipe": self.pipe, "secs": self.secs, "steps": self.steps, "reset": self.reset,
                "source": self.source}

    @staticmethod
    def from_json(o):
        return Exe(o["pipe"], o["secs"], o["steps"], o.get("source", "replay"), o.get("reset"))


def kv(line):
    d = {}
    for t in line.split()[1:]:
        k, _, v = t.partition("=")
        d[k] = v
    return d


def ilist(s):
    return [] if s in ("-", "") else [int(x) for x in s.split(",")]


def merge_result(exe, out):
    """Events of one execution from the lines the harness printed."""
    evs = [dict({"e": "Reset", "pipe": exe.pipe, "secs": exe.secs}, **exe.reset)]
    res = []
    it = iter(out)
    crashed = None
    for st in exe.steps:
        ev = dict(st["ev"])
        if st["cmd"] is None:               # lost payload: nothing was given to the pipe
            ev.update({"n": 0, "out": [], "rf": 0})
            evs.append(ev)
            res.append(None)
            continue
        line = next(it, None)
        if line is None:
            raise vlib.ToolError("replay_psi: missing output for '%s' (%s)" % (st["cmd"], exe.source))
        if line.startswith("san "):
            crashed = json.loads(line[4:])
            break
        d = kv(line)
        tag = line.split(" ", 1)[0]
        res.append(d)
        if tag == "pay":
            ev.update({"n": int(d["n"]), "out": ilist(d["out"]), "rf": int(d.get("rf", 0))})
        elif tag == "addout":
            ev["r"] = 0 if d["r"] == "0,0" else 1
        elif tag == "delout" or tag == "jdel":
            pass
        elif tag == "ssec":
            ev.update({"del": ilist(d["del"]), "mod": ilist(d["mod"])})
        elif tag == "jadd":
            ev["r"] = int(d["r"])
        elif tag == "mfd":
            ev["r"] = int(d["r"])
        elif tag == "jfd":
            ev.update({"r": int(d["r"]), "refused": int(d["refused"])})
        elif tag == "jsec":
            ev.update({"out": ilist(d["out"]), "mod": int(d["mod"])})
        else:
            raise vlib.ToolError("replay_psi: unexpected output line: " + line)
        evs.append(ev)
    if crashed is not None:
        crashed["e"] = "San"
        evs.append(crashed)
    else:
        evs.append({"e": "End"})
    exe.events = evs
    exe.results = res


def run_chunk(ctx, binp, exes, base, err):
    try:
        text = "".join(e.script(base + i) for i, e in enumerate(exes))
        r = ctx.run([binp], input=text, timeout=1500)
        if r.returncode != 0:
            raise vlib.ToolError("replay_psi failed rc=%d: %s" % (r.returncode, (r.stderr or "")[-1500:]))
        cur = None
        outs = {}
        for line in r.stdout.splitlines():
            if line.startswith("exec "):
                cur = int(line.split()[1]) - base
                outs[cur] = []
            elif line == "end":
                cur = None
            elif line.startswith("err"):
                raise vlib.ToolError("replay_psi: " + line)
            elif cur is not None:
                outs[cur].append(line)
        for i, e in enumerate(exes):
            if i not in outs:
                raise vlib.ToolError("replay_psi: no output for execution %d (%s)" % (base + i, e.source))
            lines = outs[i]
            # skip the acknowledgements of the section table and of the pipe creation
            k = 0
            while k < len(lines) and lines[k].startswith("sec "):
                k += 1
            if k < len(lines) and lines[k].split(" ", 1)[0] in ("merger", "splitter", "joiner"):
                if any(x != "0" for x in lines[k].split()[1:]):
                    raise vlib.ToolError("replay_psi: pipe creation failed: " + lines[k])
                k += 1
            merge_result(e, lines[k:])
    except Exception as ex:      # re-raised in the main thread
        err.append(ex)


def execute(ctx, binp, exes, jobs=4):
    """Run the executions on the real code (in parallel chunks)."""
    err = []
    n = len(exes)
    if n == 0:
        return
    step = max(1, (n + jobs - 1) // jobs)
    ths = []
    for base in range(0, n, step):
        t = threading.Thread(target=run_chunk, args=(ctx, binp, exes[base:base + step], base, err))
        t.start()
        ths.append(t)
    for t in ths:
        t.join()
    if err:
        raise err[0] if isinstance(err[0], vlib.ToolError) else vlib.ToolError("harness driver: %r" % err[0])


# --------------------------------------------------------- input shaping
def byte_at(sec, i):
    """Octet i of a section - twin of PsiSectionsBase!ByteAt, used ONLY to
    build filters that select something (an error here would make the
    random filters match less often, never change a verdict)."""
    ln, tid, syn, ff, bad = sec
    hl = bad if bad > 0 else ln - 3
    if i == 0:
        return tid
    if i == 1:
        return 128 * syn + 48 + hl // 256
    if i == 2:
        return hl % 256
    return 255 if ff else (tid * 7 + i * 13 + i // 251) % 256


def rand_segs(rng, size):
    if size < 2 or not rng.chance(1, 3):
        return None
    c = rng.below(3)
    if c == 0:                               # octet by octet at the beginning
        k = min(size - 1, 1 + rng.below(9))
        return "+".join(["1"] * k + [str(size - k)])
    parts = []
    left = size
    while left > 0 and len(parts) < 6:
        p = min(left, 1 + rng.below(max(1, size // 2)))
        if rng.chance(1, 15):
            parts.append(0)                  # an empty segment in the middle
        parts.append(p)
        left -= p
    if left:
        parts.append(left)
    return "+".join(str(p) for p in parts)


def pay_step(st, di, dr, ptr, runs, stuff, segs, refuse=0):
    """refuse = k: the k-th allocation the library makes during this input is refused (the event says how many
    were: rf)."""
    ev = {"e": "Pay", "st": st, "di": di, "dr": dr, "ptr": ptr, "runs": runs, "stuff": stuff}
    if dr:
        return {"cmd": None, "ev": ev}
    flags = ("s" if st else "") + ("d" if di else "") + ("fgh"[refuse - 1] if refuse else "") or "-"
    rs = ",".join("%d:%d:%d" % tuple(r) for r in runs) or "-"
    cmd = "pay %s %d %s %d" % (flags, ptr, rs, stuff)
    if segs:
        cmd += " " + segs
    return {"cmd": cmd, "ev": ev}


LENS_REAL = [3, 4, 5, 8, 11, 12, 13, 100, 183, 184, 185, 186, 187, 259, 500, 1021, 1024, 1027, 2000,
             4093, 4094, 4095, 4096]


def rand_merge_exe(rng, real):
    """A random section list cut into payloads following the rules of
    PsiSectionsBase!WellFormedPay (checked by the trace module), with gaps,
    flagged discontinuities and corrupt headers."""
    nsec = 1 + rng.below(5 if real else 6)
    base = rng.below(200)
    secs = []
    for k in range(nsec):
        if not real:
            ln = 3 + rng.below(10)
        else:
            c = rng.below(4)
            ln = rng.choice(LENS_REAL) if c == 0 else 3 + rng.below(40) if c == 1 else \
                150 + rng.below(250) if c == 2 else 3 + rng.below(4094)
        syn = 1 if ln >= 12 and rng.chance(1, 2) else 0
        ff = 1 if rng.chance(1, 6) else 0
        bad = 0
        if rng.chance(1, 10):
            c = rng.below(3)
            if c == 0:
                bad = 4094
            elif c == 1:
                bad = 4095
            else:                            # long syntax, too short for it
                ln = 3 + rng.below(9)
                syn = 1
        secs.append([ln, (base + 17 * k) % 255, syn, ff, bad])
    maxpay = 184 if real else rng.choice([6, 9, 16, 40])
    if real and rng.chance(1, 4):
        maxpay = rng.choice([20, 64, 188, 400, 5000])
    mid = 0
    if rng.chance(1, 5):
        mid = 1 + rng.below(secs[0][0] - 1)
    done, off = 0, mid
    steps = []
    pdisc = 0
    while done < nsec:
        room = maxpay - 1                    # the pointer field
        runs = []
        k, a = done + 1, off
        maxruns = rng.choice([1, 2, 2, 3, 3, 4])
        while True:
            ln = secs[k - 1][0]
            avail = min(ln - a, room)
            c = rng.below(8)
            if c <= 2:
                n = avail
            elif c == 3:
                n = min(avail, 1 + rng.below(3))
            elif c == 4 and a < 3:
                n = min(avail, 3 - a)
            else:
                n = 1 + rng.below(avail)
            runs.append([k, a, a + n])
            room -= n
            if a + n < ln:
                off = a + n
                break
            done += 1
            off = 0
            k, a = k + 1, 0
            before = sum(r[2] - r[1] for r in runs)
            if done >= nsec or room <= 0 or len(runs) >= maxruns or before > 255 or rng.chance(1, 3):
                break
        stuff = 0
        if off == 0 and room > 0 and rng.chance(1, 2):
            stuff = min(room, rng.choice([1, 2, room, 1 + rng.below(room)]))
        st = 1 if any(r[1] == 0 for r in runs) else 0
        ptr = 0
        if st:
            for r in runs:
                if r[1] == 0:
                    break
                ptr += r[2] - r[1]
        di, dr = pdisc, 0
        c = rng.below(30)
        if c == 0:
            di = 1
        elif c == 1:
            dr = 1
        size = st + sum(r[2] - r[1] for r in runs) + stuff
        refuse = 1 + rng.below(3) if (not dr and rng.chance(1, 12)) else 0
        steps.append(pay_step(st, di, dr, ptr, runs, stuff, rand_segs(rng, size), refuse))
        pdisc = 1 if dr else 0
        if rng.chance(1, 6):
            # the upstream sends its flow definition again (an attribute changed, or its output was set again):
            # not data - the section being assembled goes on
            steps.append({"cmd": "mfd %d" % rng.choice([0, 0, 27000]), "ev": {"e": "MFd"}})
    return Exe("merge", secs, steps, "random real" if real else "random small",
               reset={"mid": mid, "maxpay": maxpay})


def hexs(bs):
    return "".join("%02x" % b for b in bs) or "-"


def rand_split_exe(rng):
    nsec = 2 + rng.below(5)
    secs = []
    for k in range(nsec):
        ln = rng.choice([3, 4, 7, 8, 9, 12, 13, 20, 200, 1024, 1027, 4096])
        secs.append([ln, rng.choice([65, 66, 67, 81, 0, 254]), 1 if ln >= 12 and rng.chance(1, 2) else 0,
                     1 if rng.chance(1, 8) else 0, 0])
    steps = []
    present = set()
    for _ in range(10 + rng.below(16)):
        c = rng.below(10)
        free = [o for o in range(1, 6) if o not in present]
        if (c < 3 or not present) and free:
            o = rng.choice(free)
            n = rng.choice([1, 1, 2, 3, 3, 5, 8, 8, 12])
            tgt = rng.choice(secs)
            mb = [rng.choice([0xff, 0xff, 0x00, 0x80, 0x0f, 0xf0, rng.below(256)]) for _ in range(n)]
            fb = [(byte_at(tgt, i) if i < tgt[0] else rng.below(256)) & mb[i] for i in range(n)]
            if rng.chance(1, 8):             # near miss: one bit under the mask differs
                i = rng.below(n)
                if mb[i]:
                    bit = 1
                    while not (mb[i] & bit):
                        bit <<= 1
                    fb[i] ^= bit
            if rng.chance(1, 12):            # filter bits outside the mask (unspecified)
                i = rng.below(n)
                fb[i] |= (~mb[i]) & 0xff & (1 << rng.below(8))
            # (one output in three gets its sink only when it asks for one: need_output)
            steps.append({"cmd": "addout %d %d %s %s%s" % (o, n, hexs(fb), hexs(mb), " lazy" if rng.chance(1, 3) else ""),
                          "ev": {"e": "AddOut", "o": o, "n": n, "f": fb, "m": mb}})
            present.add(o)
        elif c < 4 and present:
            o = rng.choice(sorted(present))
            steps.append({"cmd": "delout %d" % o, "ev": {"e": "DelOut", "o": o}})
            present.discard(o)
        else:
            k = 1 + rng.below(nsec)
            segs = rand_segs(rng, secs[k - 1][0])
            steps.append({"cmd": "ssec %d%s" % (k, " " + segs if segs else ""), "ev": {"e": "SSec", "k": k}})
    return Exe("split", secs, steps, "random split")


def rand_join_exe(rng):
    nsec = 2 + rng.below(4)
    secs = [[rng.choice([3, 4, 9, 12, 200, 1027, 4096]), 10 + 7 * k, 0, 1 if rng.chance(1, 8) else 0, 0]
            for k in range(nsec)]
    steps = []
    present = set()
    for _ in range(8 + rng.below(14)):
        c = rng.below(10)
        free = [i for i in range(1, 6) if i not in present]
        if (c < 3 or not present) and free:
            i = rng.choice(free)
            steps.append({"cmd": "jadd %d" % i, "ev": {"e": "JAdd", "i": i}})
            present.add(i)
        elif c < 4 and present:
            i = rng.choice(sorted(present))
            steps.append({"cmd": "jdel %d" % i, "ev": {"e": "JDel", "i": i}})
            present.discard(i)
        elif c < 6 and present:
            # a flow definition update with new attributes (octet rate, latency), applied or refused
            i = rng.choice(sorted(present))
            steps.append({"cmd": "jfd %d %d %d %d" % (i, rng.choice([0, 1000, 2500]) + rng.below(3) * 500,
                                                      rng.choice([0, 27000, 54000]), rng.below(2)),
                          "ev": {"e": "JFd", "i": i}})
        else:
            i = rng.choice(sorted(present))
            k = 1 + rng.below(nsec)
            segs = rand_segs(rng, secs[k - 1][0])
            steps.append({"cmd": "jsec %d %d%s" % (i, k, " " + segs if segs else ""),
                          "ev": {"e": "JSec", "i": i, "k": k}})
    return Exe("join", secs, steps, "random join")


# ------------------------------------------------- TLC behaviours -> scripts
EVCH = {"acq": "a", "lost": "l"}


def merge_beh_exe(b, rng, source):
    secs = [list(s) for s in b["secs"]]
    steps, pred = [], []
    for p in b["pays"]:
        runs = [list(r) for r in p["runs"]]
        size = p["st"] + sum(r[2] - r[1] for r in runs) + p["stuff"]
        steps.append(pay_step(p["st"], p["di"], p["dr"], p["ptr"], runs, p["stuff"],
                              rand_segs(rng, size) if rng is not None else None))
        if p["dr"]:
            pred.append(None)
        else:
            pr = {"out": list(p["out"]), "ev": "".join(EVCH[x] for x in p["ev"]) or "-"}
            if p.get("bytes"):
                pr["hex"] = hexs(p["bytes"])
                pr["oh"] = ";".join(hexs(o) for o in p["outb"]) or "-"
            pred.append(pr)
    return Exe("merge", secs, steps, source, reset={"mid": b["mid"], "maxpay": b["maxpay"]}, pred=pred)


def route_beh_exe(b, rng, source):
    secs = [list(s) for s in b["secs"]]
    fils = b["fils"]
    if isinstance(fils, list):
        fils = {str(i + 1): f for i, f in enumerate(fils)}
    steps, pred = [], []
    for op in b["ops"]:
        segs = None
        if op["op"] in ("sec", "jsec") and rng is not None:
            segs = rand_segs(rng, secs[op["d"] - 1][0])
        sg = " " + segs if segs else ""
        if op["op"] == "add":
            f = fils[str(op["f"])]
            steps.append({"cmd": "addout %d %d %s %s%s" % (op["o"], f["n"], hexs(f["fb"]), hexs(f["mb"]),
                                                             " lazy" if rng is not None and rng.chance(1, 3) else ""),
                          "ev": {"e": "AddOut", "o": op["o"], "n": f["n"], "f": list(f["fb"]), "m": list(f["mb"])}})
            pred.append(None)
        elif op["op"] == "del":
            steps.append({"cmd": "delout %d" % op["o"], "ev": {"e": "DelOut", "o": op["o"]}})
            pred.append(None)
        elif op["op"] == "sec":
            steps.append({"cmd": "ssec %d%s" % (op["d"], sg), "ev": {"e": "SSec", "k": op["d"]}})
            pred.append({"del": list(op["dels"])})
        elif op["op"] == "jadd":
            steps.append({"cmd": "jadd %d" % op["o"], "ev": {"e": "JAdd", "i": op["o"]}})
            pred.append(None)
        elif op["op"] == "jdel":
            steps.append({"cmd": "jdel %d" % op["o"], "ev": {"e": "JDel", "i": op["o"]}})
            pred.append(None)
        elif op["op"] == "jfd":
            n = len(steps)
            steps.append({"cmd": "jfd %d %d %d %d" % (op["o"], 1000 * (n + 1), 27000 * (n % 3), op["f"]),
                          "ev": {"e": "JFd", "i": op["o"]}})
            pred.append(None)
        elif op["op"] == "jsec":
            steps.append({"cmd": "jsec %d %d%s" % (op["o"], op["d"], sg),
                          "ev": {"e": "JSec", "i": op["o"], "k": op["d"]}})
            pred.append({"out": list(op["dels"])})
    return Exe("split" if b["mode"] == "S" else "join", secs, steps, source, pred=pred)


def lockstep(e):
    """Textual comparison of what the detailed model predicted with what the
    real code printed.  Returns (difference or None, serialiser mismatch)."""
    if e.events and e.events[-1]["e"] == "San":
        return "sanitizer report", None
    for i, (pr, rs) in enumerate(zip(e.pred, e.results)):
        if pr is None or rs is None:
            continue
        if "hex" in pr and pr["hex"] != rs.get("hex"):
            return None, "step %d: harness serialised %s, the module %s" % (i, rs.get("hex"), pr["hex"])
        if e.pipe == "merge":
            if ilist(rs["out"]) != pr["out"]:
                return "step %d (%s): output %s, predicted %s" % (i, e.steps[i]["cmd"], rs["out"], pr["out"]), None
            if "oh" in pr and rs["oh"] != pr["oh"]:
                return "step %d (%s): octets %s, predicted %s" % (i, e.steps[i]["cmd"], rs["oh"], pr["oh"]), None
            if rs["ev"] != pr["ev"]:
                return "step %d (%s): sync events %s, predicted %s" % (i, e.steps[i]["cmd"], rs["ev"], pr["ev"]), None
        elif e.pipe == "split":
            if ilist(rs["del"]) != pr["del"]:
                return "step %d (%s): delivered to %s, predicted %s" % (i, e.steps[i]["cmd"], rs["del"], pr["del"]), None
        else:
            if ilist(rs["out"]) != pr["out"]:
                return "step %d (%s): forwarded %s, predicted %s" % (i, e.steps[i]["cmd"], rs["out"], pr["out"]), None
    return None, None


# ---------------------------------------------------------- trace validation
def validate_hists(ctx, hists, tag, max_reject=4):
    """Like Ctx.validate_histories, for PsiSections_Trace: all executions in one
    ndjson file, one TLC run; after a rejection TLC is run again on the
    remainder.  Returns [(index, line in the execution, violated invariants)].
    (vlib's version takes the TRACE_REJECTED_AT line TLC also prints after an
    invariant violation, which is the line AFTER the offending event: here the
    offending event is taken from the last state of the counterexample.)"""
    rejected = []
    start = 0
    rnd = 0
    while start < len(hists):
        path = os.path.join(ctx.build, "%s_%d.ndjson" % (tag, rnd))
        rnd += 1
        with open(path, "w") as f:
            for h in hists[start:]:
                for e in h:
                    f.write(json.dumps(e, separators=(",", ":")) + "\n")
        accepted, res, line = ctx.validate_trace(TRACE[0], TRACE[1], path, timeout=1500)
        if accepted:
            ctx.traces += len(hists) - start
            break
        if res.violated:
            ls = re.findall(r"^/\\ l = (\d+)", res.out, re.M)
            if not ls:
                raise vlib.ToolError("trace validation: invariant violated but no position\n" + res.out[-2000:])
            line = int(ls[-1]) - 1
        elif line is None:
            raise vlib.ToolError("trace validation gave no verdict\n" + res.out[-2000:])
        acc = 0
        k = None
        for i, h in enumerate(hists[start:]):
            if line <= acc + len(h):
                k = i
                break
            acc += len(h)
        if k is None:
            raise vlib.ToolError("trace validation: rejected line %d beyond trace" % line)
        rejected.append((start + k, line - acc, list(res.violated)))
        ctx.traces += k
        start = start + k + 1
        if len(rejected) >= max_reject:
            break
    return rejected


def validate_pool(ctx, exes, tag, jobs=4, chunk_events=60000):
    """Validate recorded executions with PsiSections_Trace (several TLC runs
    side by side, about chunk_events events each).  Returns the suspects
    [(exe, rejected line, invariants)]."""
    suspects = []
    err = []
    parts, cur, n = [], [], 0
    for e in exes:
        cur.append(e)
        n += len(e.events)
        if n >= chunk_events:
            parts.append(cur)
            cur, n = [], 0
    if cur:
        parts.append(cur)
    lock = threading.Lock()
    nxt = [0]

    def worker(w):
        try:
            while True:
                with lock:
                    k = nxt[0]
                    nxt[0] += 1
                if k >= len(parts):
                    return
                part = parts[k]
                rej = validate_hists(ctx, [e.events for e in part], "%s%d" % (tag, k), max_reject=4)
                for idx, line, inv in rej:
                    suspects.append((part[idx], line, inv))
        except Exception as ex:
            err.append(ex)
    ths = [threading.Thread(target=worker, args=(w,)) for w in range(min(jobs, len(parts)))]
    for t in ths:
        t.start()
    for t in ths:
        t.join()
    if err:
        raise err[0] if isinstance(err[0], vlib.ToolError) else vlib.ToolError("trace validation driver: %r" % err[0])
    return suspects


def trace_selftest(ctx, exes):
    """Vacuity guard of the trace module: one field of a recorded (accepted)
    execution is corrupted; TLC must reject each corrupted copy with a
    property invariant."""
    import copy
    bad = []

    def variant(e, idx, **chg):
        evs = copy.deepcopy(e.events)
        evs[idx].update(chg)
        return evs
    for e in exes:
        if e.pipe == "merge" and e.events[-1]["e"] == "End":
            for i, ev in enumerate(e.events):
                if ev["e"] == "Pay" and ev["out"]:
                    bad.append(("an output removed", variant(e, i, out=ev["out"][1:])))
                    bad.append(("an output replaced by something that is no section", variant(e, i, out=[0] + ev["out"][1:])))
                    break
            if bad:
                break
    for e in exes:
        if e.pipe == "split":
            i = next((i for i, ev in enumerate(e.events) if ev["e"] == "SSec"), None)
            if i is not None:
                bad.append(("a delivery to an output that does not exist", variant(e, i, **{"del": e.events[i]["del"] + [14]})))
                bad.append(("a delivery marked modified", variant(e, i, mod=[1])))
                break
    for e in exes:
        if e.pipe == "join":
            i = next((i for i, ev in enumerate(e.events) if ev["e"] == "JSec"), None)
            if i is not None:
                bad.append(("a section not forwarded", variant(e, i, out=[])))
                break
    if len(bad) < 5:
        raise vlib.ToolError("trace self-test: no suitable recorded execution")
    rej = validate_hists(ctx, [b[1] for b in bad], "selftest", max_reject=len(bad))
    ok = {idx for idx, line, inv in rej if inv}
    missing = [bad[i][0] for i in range(len(bad)) if i not in ok]
    if missing:
        raise vlib.ToolError("vacuity: PsiSections_Trace accepted a corrupted trace (%s)" % "; ".join(missing))
    ctx.extra["corrupted_traces_rejected"] = len(bad)


def shape(ev, secs):
    """Coarse, stable description of a payload (for the keys of the verdicts):
    unit start or continuation, flagged or not, one piece or several,
    stuffing, a cut inside a 3-octet header."""
    hdrcut = any(a in (1, 2) or b in (1, 2) for k, a, b in ev["runs"])
    s = ("start" if ev["st"] else "cont") + ("+disc" if ev["di"] else "")
    s += ";pieces=%s" % ("1" if len(ev["runs"]) == 1 else "2+")
    if ev["stuff"]:
        s += ";stuffing"
    if hdrcut:
        s += ";header-cut"
    return s


def verdict_key(ctx, exe, line, invs):
    """(key, description) of the rejection of `exe` at event `line`."""
    evs = exe.events
    ev = evs[line - 1] if 0 < line <= len(evs) else {"e": "?"}
    pipe = "ts_psi_" + exe.pipe
    if ev["e"] == "San":
        return "%s;%s;%s;%s" % (pipe, ev.get("kind", "san"), ev.get("where", "?"), ev.get("msg", "")[:60]), ev
    if exe.pipe == "merge":
        if "MergerSafe" in invs and ev["e"] == "Pay":
            what = "not-a-section" if 0 in ev["out"] else "order-or-duplicate"
            return "%s;output %s;%s" % (pipe, what, shape(ev, exe.secs)), ev
        if "MergerComplete" in invs:
            # which section is missing: read it in TLC's verdict on this execution alone
            path = os.path.join(ctx.build, "key_%d.ndjson" % (abs(hash(exe.source)) % 100000))
            vlib.write_ndjson(path, evs)
            _, res, _ = ctx.validate_trace(TRACE[0], TRACE[1], path)
            must = res.last_seq("must") or []
            out = res.last_seq("out") or []
            miss = [k for k in must if k not in out]
            if miss:
                k = miss[0]
                for st in exe.steps:
                    r = st["ev"].get("runs", [])
                    if any(x[0] == k and x[2] == exe.secs[k - 1][0] for x in r):
                        return "%s;section lost;%s" % (pipe, shape(st["ev"], exe.secs)), \
                            {"missing_sections": miss, "completed_in": st["ev"]}
            return "%s;section lost" % pipe, ev
        return "%s;%s" % (pipe, ",".join(invs) or "rejected"), ev
    if exe.pipe == "split":
        if ev["e"] == "SSec":
            what = "modified" if ev["mod"] else "wrong-outputs"
            return "%s;%s;delivered=%d" % (pipe, what, len(ev["del"])), ev
    if exe.pipe == "join" and ev["e"] == "JSec":
        return "%s;forwarded=%d;modified=%d" % (pipe, len(ev["out"]), ev["mod"]), ev
    return "%s;%s" % (pipe, ",".join(invs) or "rejected"), ev


def is_property_rejection(exe, line, invs):
    """A rejection is a verdict about the code when a property invariant is
    false or the execution ended in a sanitizer report; a line the trace
    module cannot consume otherwise is an ill-formed script (tool error)."""
    if invs:
        return True
    evs = exe.events
    return 0 < line <= len(evs) and evs[line - 1]["e"] == "San"


def judge(ctx, binp, suspects):
    done = set()
    for e, line, invs in suspects:
        if not is_property_rejection(e, line, invs):
            raise vlib.ToolError("trace module refused an input script (not a verdict): %s event %d %s" % (
                e.source, line, json.dumps(e.events[line - 1] if 0 < line <= len(e.events) else None)))
        # reproduce: same script, fresh process, fresh TLC run
        again = Exe(e.pipe, e.secs, e.steps, e.source, e.reset)
        execute(ctx, binp, [again], jobs=1)
        r2 = validate_hists(ctx, [again.events], "re")
        if not r2 or not is_property_rejection(again, r2[0][1], r2[0][2]):
            raise vlib.ToolError("rejected execution did not reproduce (flaky harness?): %s" % e.source)
        line2, inv2 = r2[0][1], r2[0][2]
        # shorten: the prefix up to the rejected event is enough for a safety rejection
        key, ev = verdict_key(ctx, again, line2, inv2)
        if key in done or len(done) >= 3:      # three distinct situations are enough for a report
            continue
        done.add(key)
        what = "%s: event %d of an execution of the real code (%s) is rejected by PsiSections_Trace%s: %s" % (
            key, line2, e.source, (" - invariant " + ",".join(inv2)) if inv2 else "", json.dumps(ev)[:700])
        ctx.violation(key, what, {"exe": again.to_json(), "events": again.events[:400],
                                  "rejected_line": line2, "invariants": inv2})


# -------------------------------------------------------------------- models
def run_models(ctx, jobs, par):
    """TLC runs, at most `par` at a time, in the order given (longest first);
    results are handled in the main thread."""
    res = {}
    err = []
    lock = threading.Lock()
    nxt = [0]

    def worker():
        while not err:
            with lock:
                k = nxt[0]
                nxt[0] += 1
            if k >= len(jobs):
                return
            j = jobs[k]
            try:
                t = time.time()
                res[j["name"]] = ctx.tlc(j["module"], j["cfg"], workers=j.get("workers", 1),
                                         coverage=bool(j.get("coverage")), heap=j.get("heap", "3g"),
                                         timeout=j.get("timeout", 600), count=False, name=j["name"],
                                         simulate=j.get("simulate"), depth=j.get("depth"), seed=j.get("seed"))
                tick("TLC %s done in %.1fs" % (j["name"], time.time() - t))
            except Exception as ex:
                err.append(ex)
    ths = [threading.Thread(target=worker) for _ in range(par)]
    for t in ths:
        t.start()
    for t in ths:
        t.join()
    if err:
        raise err[0] if isinstance(err[0], vlib.ToolError) else vlib.ToolError("TLC driver: %r" % err[0])
    return res


def M(name, **kw):
    return dict(name=name, module="MCPsiSections", cfg="MCPsiSections_%s.cfg" % name, **kw)


def RT(name, **kw):
    return dict(name="r_" + name, module="MCPsiSectionsRoute", cfg="MCPsiSectionsRoute_%s.cfg" % name, **kw)


MCOV = ["Gen", "Finish", "HeadStartAcq", "HeadStartSync", "HeadCont", "HeadLost", "MergeStuffing", "MergeShort",
        "MergeBadHeader", "MergeIncomplete", "MergeOutLast", "MergeOutMore", "EndInput"]


class Stats:
    """What is kept of the executions once they have been judged (the
    executions themselves are dropped batch after batch: memory)."""
    def __init__(self):
        self.lock = threading.Lock()
        self.n = 0
        self.events = 0
        self.payloads = 0
        self.routed = 0
        self.largest = 0
        self.san = 0
        self.nbeh = 0
        self.nser = 0
        self.ndiff = 0
        self.first_diff = None
        self.suspects = []
        self.samples = {}
        self.selftest = False

    def add(self, exes, suspects):
        with self.lock:
            self.n += len(exes)
            self.suspects += suspects
            for e in exes:
                self.events += len(e.events)
                for ev in e.events:
                    if ev["e"] == "Pay" and not ev["dr"]:
                        self.payloads += 1
                    elif ev["e"] in ("SSec", "JSec"):
                        self.routed += 1
                self.largest = max(self.largest, max(s[0] for s in e.secs))
                if e.events[-1]["e"] == "San":
                    self.san += 1


def judge_batch(ctx, binp, exes, stats, tag, quick):
    """Run a batch of executions on the real code, validate them against the
    trace specification, compare the replayed behaviours with the model's
    prediction; only the statistics and the suspects survive."""
    execute(ctx, binp, exes, jobs=4 if quick else 6)
    sus = validate_pool(ctx, exes, tag, jobs=(3 if quick else 4))
    stats.add(exes, sus)
    for e in exes:
        if e.pred is None:
            continue
        d, ser = lockstep(e)
        if ser:
            raise vlib.ToolError("harness/replay_psi.c byte_at disagrees with PsiSectionsBase!ByteAt: " + ser)
        with stats.lock:
            stats.nbeh += 1
            if any("hex" in p for p in e.pred if p):
                stats.nser += 1
            if d:
                stats.ndiff += 1
                if stats.first_diff is None:
                    stats.first_diff = {"source": e.source, "script": [s["cmd"] for s in e.steps][:30], "difference": d}
    with stats.lock:
        for e in exes:
            if "beh" not in stats.samples and e.source.startswith("TLC BFS e2") and len(e.steps) >= 3:
                stats.samples["beh"] = {"source": e.source, "secs": e.secs, "script": [s["cmd"] for s in e.steps],
                                        "predicted": e.pred, "observed": e.results}
            if "real" not in stats.samples and e.source == "random real" and 6 < len(e.steps) < 40:
                stats.samples["real"] = {"source": "random (seeded)", "secs": e.secs,
                                         "script": [s["cmd"] for s in e.steps][:12], "events": e.events[:8]}
            if "split" not in stats.samples and e.source == "random split":
                stats.samples["split"] = {"source": "random (seeded)", "secs": e.secs,
                                          "script": [s["cmd"] for s in e.steps][:10], "events": e.events[1:9]}


def iter_beh(res, tag="BEH"):
    """The JSON payloads TLC printed with the given tag, one at a time."""
    for t, payload in res.printed:
        if t != tag:
            continue
        payload = payload.strip()
        if payload.startswith('"') and payload.endswith('"'):
            body = payload[1:-1].replace('\\"', '"').replace("\\\\", "\\")
            try:
                yield json.loads(body)
            except Exception:
                pass


def run(ctx):
    quick = ctx.quick
    stats = Stats()
    side = {"err": [], "bin": None}
    built = threading.Event()
    BATCH = 25000

    def code_to_spec():
        """3. code -> spec (runs while TLC works on the models)."""
        try:
            try:
                side["bin"] = ctx.cc("replay_psi", SRCS, flags=FLAGS, san="asan")
            finally:
                built.set()
            rng = vlib.Rng(ctx.seed)
            n = (260, 140, 120, 60) if quick else (9000, 3000, 2400, 900)
            rounds = 1 if quick else 6
            tick("harness built")
            for r in range(rounds):
                exes = [rand_merge_exe(rng, False) for _ in range(n[0] // rounds)]
                exes += [rand_merge_exe(rng, True) for _ in range(n[1] // rounds)]
                exes += [rand_split_exe(rng) for _ in range(n[2] // rounds)]
                exes += [rand_join_exe(rng) for _ in range(n[3] // rounds)]
                judge_batch(ctx, side["bin"], exes, stats, "cs%d_" % r, quick)
                tick("random executions: round %d of %d judged" % (r + 1, rounds))
                if not stats.selftest and not stats.suspects:
                    trace_selftest(ctx, exes)
                    stats.selftest = True
                    tick("trace self-test done")
        except Exception as ex:
            side["err"].append(ex)
    cs = threading.Thread(target=code_to_spec)
    cs.start()

    # ---- 1. model checking
    SCOV = ["AddOut", "DelOut", "SInput"]
    JCOV = ["JAdd", "JDel", "JFd", "JInput"]
    if quick:
        pos = [M("m3q", workers=4), M("m2q", coverage=MCOV),
               RT("s"), RT("j", coverage=JCOV)]
        beh = [M("e2", workers=2), M("simsmall", simulate=60, depth=300), M("simreal", simulate=50, depth=2500, heap="4g"),
               M("e2d"), RT("es", coverage=SCOV), RT("sims", simulate=150, depth=40), RT("simj", simulate=60, depth=40)]
        negm = ("neg_trim", "neg_nostuff", "neg_noptr")
        negr = ("neg_first", "neg_nomask", "neg_joinfirst", "neg_fdfail")
    else:
        pos = [M("m4", workers=4, timeout=1500, heap="5g"), M("m3r3", workers=4, timeout=1500, heap="5g"),
               M("m3", workers=4, coverage=MCOV, timeout=1500, heap="4g"), M("m3q", workers=2), M("m2q", coverage=MCOV),
               RT("s4", workers=1, timeout=1500), RT("s", coverage=SCOV), RT("j", coverage=JCOV)]
        beh = [M("e3", workers=3, timeout=1500, heap="5g")] + \
              [dict(M("simsmall", simulate=400, depth=300, timeout=1500), name="simsmall%d" % i, seed=ctx.seed + i) for i in range(4)] + \
              [dict(M("simreal", simulate=300, depth=2500, heap="4g", timeout=1500), name="simreal%d" % i, seed=ctx.seed + i) for i in range(4)] + \
              [M("e2", workers=2), M("e2d"),
               RT("es", coverage=SCOV), RT("sims", simulate=3000, depth=40), RT("simj", simulate=1000, depth=40)]
        negm = ("neg_nodisc", "neg_trim", "neg_nostuff", "neg_noptr", "neg_ptralways")
        negr = ("neg_first", "neg_nomask", "neg_anybyte", "neg_stale", "neg_joinfirst", "neg_fdfail")
    neg = [M(c) for c in negm] + [RT(c) for c in negr]
    # the exhaustive models run on the side; the behaviours are replayed as soon as they are there
    res = {}
    bg = {"err": []}

    def exhaustive():
        try:
            res.update(run_models(ctx, pos, par=4))
        except Exception as ex:
            bg["err"].append(ex)
    ex_th = threading.Thread(target=exhaustive)
    ex_th.start()
    try:
        res.update(run_models(ctx, beh + neg, par=(4 if quick else 5)))
        for j in beh:
            r = res[j["name"]]
            ctx.model_must_hold(r, j["cfg"])
            if j.get("coverage"):
                ctx.require_coverage(r, j["coverage"])

        # ---- 2. spec -> code
        built.wait()
        if side["bin"] is None:
            raise side["err"][0] if side["err"] else vlib.ToolError("harness not built")
        rng = vlib.Rng(ctx.seed + 77)
        exes = []
        for j in neg:
            r = res[j["name"]]
            if not r.violated:
                raise vlib.ToolError("vacuity: negative configuration %s not rejected by TLC" % j["cfg"])
            ctx.extra.setdefault("negative_configurations", {})[j["cfg"]] = r.violated
            # the behaviour that breaks the property in the broken model is a directed test for the code
            for b in iter_beh(r, "BAD"):
                mk = merge_beh_exe if j["module"] == "MCPsiSections" else route_beh_exe
                e = mk(b, None, "counterexample of model variant " + j["name"])
                e.pred = None
                exes.append(e)
                break
        nb = 0
        seen = set()
        nbatch = 0
        tick("behaviour models done")
        for j in beh:
            mk = merge_beh_exe if j["module"] == "MCPsiSections" else route_beh_exe
            src = "TLC %s %s" % ("simulation" if j.get("simulate") else "BFS", j["name"])
            for b in iter_beh(res[j["name"]]):
                k = hash(json.dumps(b, sort_keys=True))
                if k in seen:
                    continue
                seen.add(k)
                # TLC's octets are compared with the harness' serialisation on unsegmented payloads too
                exes.append(mk(b, rng if nb % 2 else None, src))
                nb += 1
                if len(exes) >= BATCH:
                    judge_batch(ctx, side["bin"], exes, stats, "sc%d_" % nbatch, quick)
                    nbatch += 1
                    tick("%d behaviours replayed and validated" % nb)
                    exes = []
            res[j["name"]] = None          # TLC's output is no longer needed
        if nb == 0:
            raise vlib.ToolError("TLC emitted no behaviour")
        if exes:
            judge_batch(ctx, side["bin"], exes, stats, "sc%d_" % nbatch, quick)
        tick("%d behaviours replayed and validated" % nb)
    finally:
        ex_th.join()
        cs.join()
    # ---- the exhaustive models and the code -> spec side
    if bg["err"]:
        ex = bg["err"][0]
        raise ex if isinstance(ex, vlib.ToolError) else vlib.ToolError("TLC driver: %r" % ex)
    if side["err"]:
        ex = side["err"][0]
        raise ex if isinstance(ex, vlib.ToolError) else vlib.ToolError("code->spec driver: %r" % ex)
    for j in pos:
        r = res[j["name"]]
        ctx.model_must_hold(r, j["cfg"])
        if j.get("coverage"):
            ctx.require_coverage(r, j["coverage"])
        ctx.states += r.distinct
        ctx.transitions += r.generated
    ctx.exhaustive = True
    tick("exhaustive models and random executions done")
    ctx.evaluations += stats.n
    ctx.extra["model_behaviours_replayed"] = stats.nbeh
    ctx.extra["behaviours_with_octets_cross_checked"] = stats.nser
    ctx.extra["behaviours_differing_from_prediction"] = stats.ndiff
    if stats.first_diff:
        ctx.extra["first_difference"] = stats.first_diff
    ctx.extra["executions_on_real_code"] = stats.n
    ctx.extra["events_validated"] = stats.events
    ctx.extra["payloads_input"] = stats.payloads
    ctx.extra["sections_routed"] = stats.routed
    ctx.extra["largest_section"] = stats.largest
    ctx.extra["executions_ended_by_sanitizer"] = stats.san
    for k in ("beh", "real", "split"):
        if k in stats.samples:
            ctx.sample(stats.samples[k])
    judge(ctx, side["bin"], stats.suspects)
    # a difference with the detailed model that the abstract specification accepts is
    # not a violation (e.g. another but correct resynchronisation); it is recorded
    if stats.ndiff and not ctx.violations and not ctx.known_hits:
        ctx.extra["model_drift"] = True
        ctx.notes.append("real code differs from the detailed model's prediction without violating the abstract specification")
    ctx.assumptions += [
        "a gap (missing payload) is signalled: the first payload after it carries the discontinuity flag, as upipe_ts_decaps does on a continuity error; an unsignalled gap is outside the claim",
        "corrupt data = a header the merger can recognise as wrong (section_length 4094/4095, long syntax with length < 9) - a wrong but plausible length field is outside the claim; the loss allowed after a corruption runs from the payload in which the third header octet arrives to the next unit-start payload after it",
        "a well-formed cutting (PsiSectionsBase!WellFormedPay): unit start iff the first octet of a section is in the payload, pointer field = octets before it, stuffing only after the end of a section, table_id /= 0xff",
        "when the merger outputs a section is not constrained, only the order during the stream and completeness at its end",
        "splitter: filters with bits outside their mask and sections shorter than the filter are unspecified (either outcome accepted); the order of delivery among outputs is free",
        "the VALUE of the flow definition of the joiner (octet rate, section interval, latency) is not part of the statement (that an update of it, applied or refused, does not stop the forwarding is: JFd)",
    ]
    ctx.trusted += ["TLC", "harness/replay_psi.c (command interpreter, serialiser byte_at cross-checked against the module, identification of outputs by octet comparison)",
                    "harness/shim/bitstream/mpeg/psi.h (clean-room biTStream shim: PSI_HEADER_SIZE, PSI_PRIVATE_MAX_SIZE, psi_get_length, psi_validate)",
                    "gcc AddressSanitizer / UndefinedBehaviorSanitizer"]


def replay(ctx, rp):
    """bin/check C16 --replay file: re-run the stored execution."""
    binp = ctx.cc("replay_psi", SRCS, flags=FLAGS, san="asan")
    e = Exe.from_json(rp["replay"]["exe"])
    execute(ctx, binp, [e], jobs=1)
    r = validate_hists(ctx, [e.events], "replay")
    if r and is_property_rejection(e, r[0][1], r[0][2]):
        print("VIOLATION property=C16 replay reproduced: event %d %s %s" % (
            r[0][1], ",".join(r[0][2]), json.dumps(e.events[r[0][1] - 1])[:600]))
        return 1
    if r:
        print("ERROR property=C16 the stored script is refused by the trace module (event %d)" % r[0][1])
        return 2
    print("OK property=C16 replay accepted")
    return 0
