"""C14 - stream re-chunking pipes conserve bytes and ignore chunk boundaries.

1. TLC checks spec/Rechunk.tla (abstract variables in / acc / marks / units per
   run + line-by-line transcriptions of upipe_agg, upipe_chunk_stream,
   upipe_ts_sync and upipe_ts_check, one action per loop branch) exhaustively
   for small streams over {sync, other}: invariants Subsequence, WholePackets,
   Conservation, UnitSize, CutInvariance (twin runs of one behaviour, same
   total stream, two cuttings) and ReleaseTerminates; coverage guard on every
   branch; broken variants (negative cfgs) must be rejected.
2. spec -> code: behaviours emitted by TLC (every call with the units the
   model predicts for it) are scaled to real sizes (188/196/204-octet packets,
   MTU 1316 ...) and executed on the real pipes through harness/pipe_driver.c +
   harness/pd_ext_c14.c; the units printed by the recording sink are compared
   call by call with the prediction.  The same stream is also run with
   segmented buffers and under a random octet-level cutting.
3. code -> spec: enumerated and seeded random executions (planted sync
   patterns, empty / one-octet / segmented buffers, discontinuities, release
   at any point) are recorded and validated by spec/Rechunk_Trace.tla, which
   evaluates the sentences of the property in every state.  A call that does
   not return within the step budget / alarm is a Timeout event, condemned by
   ReleaseTerminates.
A violation is reported only for an execution of the real code that the
trace specification rejects twice (it is re-run before being reported).
"""
import json, os, re, sys, threading, time
import vlib
from checks import pipecommon

LEVEL = "model_checking"
TRACE = ("Rechunk_Trace", "Rechunk_Trace.cfg")
TS_SRC = ["lib/upipe-ts/upipe_ts_sync.c", "lib/upipe-ts/upipe_ts_check.c",
          "lib/upipe-ts/upipe_ts_align.c", "lib/upipe/uprobe_prefix.c"]
SAN_ENV = {"ASAN_OPTIONS": "detect_leaks=0:abort_on_error=0:exitcode=97",
           "UBSAN_OPTIONS": "print_stacktrace=1:halt_on_error=1:exitcode=98"}
# step budget of a call: a call that outputs more units than the pipe was given octets so
# far (+2) does not terminate (every unit of every mode but an empty one consumes an octet)
BUDGET_SLACK = 2
ALARM_S = 3               # CPU seconds a guarded call may burn (they take microseconds)
MAX_ENDINGS = 3           # per batch: calls that ended the harness (alarm, crash) before the rest is skipped
MAX_ENDINGS_TOTAL = 12    # per pool of executions
MAXBUF = 3900             # octets per buffer (the driver reads lines of 8192 characters)
TSM = ("sync", "check")


# deep (but bounded) recursion of the specification's operators on kilo-octet units
os.environ.setdefault("JAVA_TOOL_OPTIONS", "-Xss64m")


def build(ctx):
    return pipecommon.build_driver(ctx, exts=["pd_ext_c14.c"], extra=TS_SRC,
                                   flags=["-I", vlib.HARNESS + "/shim"])


# ------------------------------------------------------------------ executions
class Exe:
    """One execution on the real code: settings (both runs), the calls in
    order, and after the run the recorded events."""
    def __init__(self, conf, ops, source, pred=None):
        self.conf = conf          # mode pipe mtu align psize nsync insize [default]
        self.ops = ops            # [r, kind, bytes, seg, disc]  kind: in | flush | rel
        self.source = source
        self.pred = pred          # per op: list of predicted units (bytes) or None
        self.events = None
        self.percall = None       # per op: units observed during the call
        self.fail = None          # ("timeout"|"crash", op index, detail)
        self.skipped = False      # not run: too many calls of this batch had already ended the harness
        self.cmds = None

    def runs(self):
        return sorted(set(o[0] for o in self.ops))

    def build_cmds(self):
        c = self.conf
        cmds = [("xreset", ("setup",))]
        for r in self.runs():
            p, s = "p%d" % r, "s%d" % r
            cmds.append(("new %s usink" % s, ("setup",)))
            cmds.append(("new %s %s" % (p, c["pipe"]), ("setup",)))
            if c["mode"] == "chain":
                # chunk_stream -> ts_check -> agg -> sink: the application only keeps the head of the chain
                m, a = "m%d" % r, "a%d" % r
                cmds.append(("new %s ts_check" % m, ("setup",)))
                cmds.append(("new %s agg" % a, ("setup",)))
                cmds.append(("opt %s set mtu %d,%d" % (p, c["mtu"], c["psize"]), ("setup",)))
                cmds.append(("opt %s set output_size %d" % (m, c["psize"]), ("setup",)))
                cmds.append(("opt %s set output_size %d" % (a, c["mtu"]), ("setup",)))
                cmds.append(("out %s %s" % (a, s), ("setup",)))
                cmds.append(("out %s %s" % (m, a), ("setup",)))
                cmds.append(("out %s %s" % (p, m), ("setup",)))
                cmds.append(("xfd %s mpegtsaligned." % p, ("setup",)))
                cmds.append(("rel %s" % m, ("setup",)))
                cmds.append(("rel %s" % a, ("setup",)))
                continue
            if c["mode"] == "agg":
                cmds.append(("xfd %s -%s" % (p, (" %d" % c["insize"]) if c["insize"] else ""), ("setup",)))
                cmds.append(("opt %s set output_size %d" % (p, c["mtu"]), ("setup",)))
            elif c["mode"] == "chunk":
                cmds.append(("xfd %s -" % p, ("setup",)))
                if not c.get("default"):
                    cmds.append(("opt %s set mtu %d,%d" % (p, c["mtu"], c["align"]), ("setup",)))
            elif c["mode"] == "sync":
                cmds.append(("xfd %s -" % p, ("setup",)))
                cmds.append(("opt %s set output_size %d" % (p, c["psize"]), ("setup",)))
                cmds.append(("opt %s set sync %d" % (p, c["nsync"]), ("setup",)))
            else:
                cmds.append(("xfd %s mpegtsaligned." % p, ("setup",)))
                cmds.append(("opt %s set output_size %d" % (p, c["psize"]), ("setup",)))
            cmds.append(("out %s %s" % (p, s), ("setup",)))
        sofar = {}
        for i, (r, kind, data, seg, disc) in enumerate(self.ops):
            sofar[r] = sofar.get(r, 0) + len(data)
            if kind == "in":
                line = "xin p%d %s" % (r, data.hex() if data else "-")
                if seg:
                    line += " seg=" + seg
                if disc:
                    line += " disc"
            elif kind == "flush":
                line = "xflush p%d" % r
            elif kind == "set":
                # the option changes while octets may be held (seg = "mtu,align")
                cmds.append(("opt p%d set mtu %s" % (r, seg), ("op", i)))
                continue
            else:
                line = "xrel p%d" % r
            line += " budget=%d" % (sofar[r] + BUDGET_SLACK)
            cmds.append((line, ("op", i)))
        for r in self.runs():
            cmds.append(("rel s%d" % r, ("cleanup",)))
        self.cmds = cmds

    def script(self, idx):
        if self.cmds is None:
            self.build_cmds()
        return "mark %d\n%s\n" % (idx, "\n".join(c for c, _ in self.cmds))

    def reset_event(self):
        c = self.conf
        return {"e": "Reset", "mode": c["mode"], "pipe": c["pipe"], "mtu": c["mtu"], "align": c["align"],
                "psize": c["psize"], "nsync": c["nsync"], "insize": c["insize"]}

    def to_replay(self):
        return {"conf": self.conf, "source": self.source,
                "ops": [[r, k, (d.hex() if d else ""), seg, int(bool(disc))] for r, k, d, seg, disc in self.ops]}

    @staticmethod
    def from_replay(o):
        ops = [[r, k, bytes.fromhex(h), seg, bool(disc)] for r, k, h, seg, disc in o["ops"]]
        return Exe(o["conf"], ops, o.get("source", "replay"))

    def fresh(self):
        return Exe(self.conf, self.ops, self.source, self.pred)


def close_runs(ops):
    """Every run is released at the end (the pipes must not outlive the execution)."""
    open_runs = []
    for r in sorted(set(o[0] for o in ops)):
        if not any(o[0] == r and o[1] == "rel" for o in ops):
            open_runs.append(r)
    return ops + [[r, "rel", b"", None, False] for r in open_runs]


def parse_output(exes, base, stdout):
    """Feeds the output of one harness process (executions exes[base:]) into the
    executions.  Returns (index of the last execution started, ended_early)."""
    cur = None
    ci = -1                   # index in cur.cmds of the command being executed
    last = base - 1
    pending_units = []
    early = False
    dead = False              # the current execution was abandoned (budget overrun)
    for line in stdout.splitlines():
        if dead and not line.startswith("cmd mark "):
            continue
        if line.startswith("cmd "):
            text = line[4:]
            if text.startswith("mark "):
                k = int(text.split()[1])
                cur = exes[k]
                last = k
                ci = -1
                dead = False
                cur.events = [cur.reset_event()]
                cur.percall = [None] * len(cur.ops)
                cur.fail = None
                continue
            if text == "quit" or text.startswith("xbudget"):
                cur = None if text == "quit" else cur
                continue
            if cur is None:
                raise vlib.ToolError("pipe_driver: command outside an execution: " + line)
            ci += 1
            if ci >= len(cur.cmds) or cur.cmds[ci][0].split() != text.split():
                raise vlib.ToolError("pipe_driver: unexpected command echo %r (expected %r)" %
                                     (text[:80], cur.cmds[ci][0][:80] if ci < len(cur.cmds) else None))
            meta = cur.cmds[ci][1]
            pending_units = []
            if meta[0] == "op":
                r, kind, data, seg, disc = cur.ops[meta[1]]
                if kind == "in":
                    cur.events.append({"e": "In", "r": r, "b": list(data), "d": int(bool(disc))})
                elif kind == "rel":
                    cur.events.append({"e": "Rel", "r": r})
                elif kind == "set":
                    # (the event is completed when the answer of the setter is known: Set or SetRefused)
                    cur.events.append({"e": "Set?", "r": r, "mtu": int(seg.split(",")[0]), "align": int(seg.split(",")[1])})
            continue
        if cur is None or ci < 0:
            continue
        meta = cur.cmds[ci][1]
        if line.startswith("unit "):
            m = re.match(r"unit s(\d+) size=(-?\d+) hex=(\S+)$", line)
            if not m or meta[0] != "op":
                raise vlib.ToolError("pipe_driver: unexpected unit line: " + line[:120])
            h = m.group(3)
            if "!" in h or int(m.group(2)) < 0:
                # the buffer announces more octets than it holds: a verdict for the trace specification
                got = len(h.split("!")[0]) // 2 if h[0] != "!" else 0
                cur.events.append({"e": "BadUnit", "r": int(m.group(1)), "n": int(m.group(2)), "got": got})
                pending_units.append(b"")
                continue
            b = bytes.fromhex(h) if h != "-" else b""
            cur.events.append({"e": "Unit", "r": int(m.group(1)), "b": list(b)})
            pending_units.append(b)
        elif line.startswith("timeout "):
            if meta[0] != "op":
                raise vlib.ToolError("pipe_driver: time-out outside a guarded call")
            r = cur.ops[meta[1]][0]
            cur.events.append({"e": "Timeout", "r": r, "how": line.split()[1]})
            cur.percall[meta[1]] = pending_units
            cur.fail = ("timeout", meta[1], line.split()[1])
            if line.split()[1] == "budget":
                dead = True           # the harness abandons the pipe and goes on
                continue
            early = True              # alarm: the process has exited
            break
        elif line.startswith("ret "):
            toks = line.split()
            if meta[0] == "op":
                r, kind = cur.ops[meta[1]][0], cur.ops[meta[1]][1]
                cur.percall[meta[1]] = pending_units
                if kind == "flush":
                    cur.events.append({"e": "Flush", "r": r, "ret": int(toks[1])})
                elif kind == "rel":
                    if toks[1] != "0":
                        raise vlib.ToolError("pipe_driver: xrel failed: " + line)
                    cur.events.append({"e": "Released", "r": r})
                elif kind == "set":
                    for ev in reversed(cur.events):
                        if ev["e"] == "Set?":
                            ev["e"] = "Set" if toks[1] == "0" else "SetRefused"
                            break
                elif toks[1] != "0":
                    raise vlib.ToolError("pipe_driver: xin failed: %s (%s)" % (line, cur.cmds[ci][0][:60]))
            elif toks[1] != "0":
                raise vlib.ToolError("pipe_driver: set-up command failed: %s -> %s" % (cur.cmds[ci][0], line))
    return last, early


def run_chunk(ctx, binp, exes, lo, hi, tally):
    """Runs exes[lo:hi] on the real code, restarting the harness after an
    execution that ended it (time-out)."""
    start = lo
    endings = 0
    while start < hi:
        if endings >= MAX_ENDINGS or tally["endings"] >= MAX_ENDINGS_TOTAL:
            # silent hangs / crashes cost an alarm and a process each: enough were recorded
            for i in range(start, hi):
                exes[i].skipped = True
                exes[i].events = [exes[i].reset_event()]
                exes[i].percall = [None] * len(exes[i].ops)
            return
        text = "xbudget 20000 %d\n" % ALARM_S
        text += "".join(exes[i].script(i) for i in range(start, hi)) + "quit\n"
        r = ctx.run([binp, "0"], input=text, timeout=300, env=SAN_ENV)
        last, early = parse_output(exes, start, r.stdout)
        if early:
            start = last + 1
            endings += 1
            tally["endings"] += 1
            continue
        if r.returncode == 0 and last == hi - 1:
            return
        endings += 1
        tally["endings"] += 1
        if last < start:
            raise vlib.ToolError("pipe_driver produced no output (rc=%d): %s" % (r.returncode, (r.stderr or "")[-1500:]))
        e = exes[last]
        opi = None
        for ci, (c, meta) in enumerate(e.cmds):
            if meta[0] == "op" and e.percall[meta[1]] is None:
                opi = meta[1]
                break
        if opi is None:
            raise vlib.ToolError("pipe_driver ended abnormally outside a call (rc=%d): %s" %
                                 (r.returncode, (r.stderr or "")[-1500:]))
        if r.returncode == 124:
            # the whole process had to be killed: the call in progress never returned
            e.events.append({"e": "Timeout", "r": e.ops[opi][0], "how": "process"})
            e.fail = ("timeout", opi, "process")
        else:
            # abort / sanitizer report inside the real code during a call
            e.events.append({"e": "Crash", "r": e.ops[opi][0], "rc": r.returncode})
            e.fail = ("crash", opi, (r.stderr or "")[-1200:])
        e.percall[opi] = []
        start = last + 1


def execute(ctx, binp, exes, jobs=4, per=120):
    if not exes:
        return
    for e in exes:
        e.ops = close_runs(e.ops)
        e.build_cmds()
    err = []
    sem = threading.Semaphore(jobs)
    tally = {"endings": 0}

    def one(lo, hi):
        with sem:
            try:
                run_chunk(ctx, binp, exes, lo, hi, tally)
            except Exception as ex:
                err.append(ex)
    ths = [threading.Thread(target=one, args=(lo, min(lo + per, len(exes)))) for lo in range(0, len(exes), per)]
    for t in ths:
        t.start()
    for t in ths:
        t.join()
    if err:
        raise err[0] if isinstance(err[0], vlib.ToolError) else vlib.ToolError("harness driver: %r" % err[0])
    for e in exes:
        if not e.events:
            raise vlib.ToolError("pipe_driver: no output for an execution (%s)" % e.source)


# --------------------------------------------------------- stream construction
def filler(x):
    b = (x * 37 + 11) % 251
    return 0x48 if b == 0x47 else b


def rand_seg(rng, n):
    """A segmentation of an n-octet buffer (sizes joined by +), empty segments included."""
    if n == 0:
        return rng.choice([None, "0", "0+0"])
    parts = []
    left = n
    while left > 0 and len(parts) < 40:
        s = min(left, rng.choice([1, 1, 2, 3, 5, 47, 188, left]))
        if rng.chance(1, 8):
            parts.append(0)
        parts.append(s)
        left -= s
    if left:
        parts.append(left)
    if rng.chance(1, 8):
        parts.append(0)
    return "+".join(str(p) for p in parts)


def random_cut(rng, data, marks, sizes):
    """Cuts data into buffers [(bytes, disc)] with a discontinuity flag on the
    buffer that starts at each offset of marks (sorted, distinct)."""
    out = []
    bounds = [0] + [m for m in marks if 0 < m <= len(data)] + [len(data)]
    bounds = sorted(set(bounds))
    first_done = set()
    pos = 0
    n = len(data)
    while True:
        nxt = min([b for b in bounds if b > pos] + [n])
        need = pos in marks and pos not in first_done
        if pos >= n and not need:
            break
        ln = rng.choice(sizes)
        if ln == 0 and not need and not rng.chance(1, 3):
            ln = rng.choice([x for x in sizes if x > 0])
        if len(out) > 3000:
            ln = MAXBUF           # a long stream in tiny pieces: the rest goes in large ones
        ln = min(ln, nxt - pos, MAXBUF)
        out.append((bytes(data[pos:pos + ln]), need))
        if need:
            first_done.add(pos)
        pos += ln
        if len(out) > 4000:
            raise vlib.ToolError("random_cut does not progress")
    return out


def interleave(rng, runs):
    """runs: {r: [op...]} -> one sequence keeping each run's order."""
    idx = {r: 0 for r in runs}
    out = []
    live = [r for r in runs if runs[r]]
    while live:
        r = rng.choice(live)
        out.append(runs[r][idx[r]])
        idx[r] += 1
        if idx[r] >= len(runs[r]):
            live.remove(r)
    return out


# ------------------------------------------------------------- spec -> code
def scale_choices(mode, b, maxsym):
    if mode == "sync" or mode == "check":
        ks = {4: [47, 49, 51, 1], 3: [68, 1, 2], 2: [94, 102, 3]}.get(b["psize"], [1])
    elif mode == "agg":
        ks = [188, 1, 3, 47]
    else:
        ks = [1, 4, 73, 188]
    return [k for k in ks if k * maxsym <= MAXBUF] or [1]


def beh_exes(b, rng, idx):
    """A behaviour emitted by TLC -> executions on the real code with the
    predicted units of every call.  Pure change of representation: symbol i of
    the stream becomes K octets (the first one 0x47 iff the symbol is `sync`)."""
    mode = b["mode"]
    calls = b["calls"]
    maxsym = max([len(c["b"]) for c in calls] + [1])
    ks = scale_choices(mode, b, maxsym)
    K = ks[idx % len(ks)]
    syms = {}
    for c in calls:
        if c["op"] == "in":
            syms.setdefault(c["r"], []).extend(c["b"])
    real = {}
    for r, ss in syms.items():
        out = bytearray()
        for gi, v in enumerate(ss):
            for j in range(K):
                out.append(0x47 if (mode in TSM and j == 0 and v == 71) else filler(gi * K + j))
        real[r] = bytes(out)

    def unit_bytes(r, u, p):
        if mode == "agg":              # values are stream positions (1-based)
            return b"".join(real[r][(v - 1) * K:v * K] for v in u)
        return real[r][p * K:(p + len(u)) * K]
    pipes = {"agg": ["agg"], "chunk": ["chunk_stream"], "sync": ["ts_sync", "ts_align"],
             "check": ["ts_check", "ts_align"]}[mode]
    conf = {"mode": mode, "pipe": pipes[idx % len(pipes)], "mtu": b["mtu"] * K, "align": b["align"] * K,
            "psize": b["psize"] * K, "nsync": b["nsync"], "insize": b["insize"] * K}
    if mode in TSM:
        conf["mtu"], conf["align"] = 1, 1
    else:
        conf["psize"] = 1
    ops, pred = [], []
    off = {}
    for c in calls:
        r = c["r"]
        us = [unit_bytes(r, u, (c["p"][i] if mode != "agg" else 0)) for i, u in enumerate(c["u"])]
        if c["op"] == "in":
            o = off.get(r, 0)
            data = real[r][o * K:(o + len(c["b"])) * K]
            off[r] = o + len(c["b"])
            ops.append([r, "in", data, None, bool(c["d"])])
        else:
            ops.append([r, "rel", b"", None, False])
        pred.append(us)
    out = [Exe(conf, ops, "TLC behaviour", pred)]
    # the same behaviour with segmented buffers (run 1) and, for the parsers, a
    # random octet-level cutting of the same stream as second run
    if idx % 3 == 0:
        ops2, pred2 = [], []
        marks = []
        o = 0
        for op, pr in zip(ops, pred):
            if op[0] != 1:
                continue
            if op[1] == "in":
                if op[4]:
                    marks.append(o)
                o += len(op[2])
                ops2.append([1, "in", op[2], rand_seg(rng, len(op[2])), op[4]])
            else:
                ops2.append(list(op))
            pred2.append(pr)
        if mode in TSM and 1 in real:
            released = any(op[0] == 1 and op[1] == "rel" for op in ops)
            sizes = [0, 1, 1, 2, 3, K, K + 1, 2 * K, 5 * K] if mode == "sync" else [conf["psize"], 2 * conf["psize"], 3 * conf["psize"]]
            cut = random_cut(rng, real[1], marks, sizes) if released else []
            for data, disc in cut:
                ops2.append([2, "in", data, rand_seg(rng, len(data)) if rng.chance(1, 3) else None, disc])
                pred2.append(None)
            if cut:
                ops2.append([2, "rel", b"", None, False])
                pred2.append(None)
        out.append(Exe(conf, ops2, "TLC behaviour, segmented + random cutting", pred2))
    return out


def lockstep(e):
    """First difference between the units predicted by the model and the
    units the real pipe output, call by call (None: none)."""
    for i, want in enumerate(e.pred or []):
        if want is None:
            continue
        got = e.percall[i] if e.percall and i < len(e.percall) else None
        if got is None or list(got) != list(want):
            op = e.ops[i]
            return {"call": i, "op": "%s run %d" % (op[1], op[0]),
                    "predicted": [u.hex()[:64] for u in want],
                    "observed": None if got is None else [u.hex()[:64] for u in got]}
    return None


# ------------------------------------------------------------- code -> spec
def conf_of(mode, pipe, mtu=1, align=1, psize=1, nsync=2, insize=0, default=False):
    c = {"mode": mode, "pipe": pipe, "mtu": mtu, "align": align, "psize": psize, "nsync": nsync, "insize": insize}
    if default:
        c["default"] = True
    return c


def enumerated(quick):
    """Directed scripts: chunk_stream released with every remainder (the
    situation of DESIGN.md S4), agg at the MTU limits, ts_sync on the sequences
    of the repository's own test."""
    out = []
    for mtu, align in [(5, 2), (7, 3), (4, 3), (3, 1), (1460, 4), (1316, 188)]:
        size = (mtu // align) * align
        totals = sorted(set(list(range(0, min(2 * size + align + 1, 40))) + [size - 1, size, size + 1, 2 * size - 1, 2 * size + align - 1]))
        for n in totals:
            if n < 0 or n > 3 * MAXBUF:
                continue
            data = bytes(filler(i) for i in range(n))
            for cut in ([n], [n // 2, n - n // 2], [1] * n if n <= 12 else None):
                if cut is None:
                    continue
                ops = []
                o = 0
                for ln in cut:
                    ops.append([1, "in", data[o:o + ln], None, False])
                    o += ln
                ops.append([1, "rel", b"", None, False])
                out.append(Exe(conf_of("chunk", "chunk_stream", mtu=mtu, align=align, default=(mtu == 1460)),
                               ops, "enumerated chunk_stream total=%d" % n))
            if quick and mtu > 100:
                break
    # the option changes while octets are held, then the pipe is released / fed again
    for (m1, a1), held, (m2, a2), more in [((100, 1), 57, (10, 4), None), ((100, 1), 57, (10, 4), 1), ((7, 3), 5, (3, 1), None),
                                           ((1342, 3), 1000, (100, 100), 2000), ((1342, 3), 1000, (4, 8), None),
                                           ((1342, 3), 1000, (4, 8), 2000), ((7, 3), 5, (0, 1), 9),
                                           ((9, 8), 7, (2, 1), None), ((5, 2), 1, (100, 1), 3), ((188, 47), 100, (7, 3), 0)]:
        ops = [[1, "in", bytes(filler(i) for i in range(held)), None, False], [1, "set", b"", "%d,%d" % (m2, a2), False]]
        if more is not None:
            ops.append([1, "in", bytes(filler(held + i) for i in range(more)), None, False])
        ops.append([1, "rel", b"", None, False])
        out.append(Exe(conf_of("chunk", "chunk_stream", mtu=m1, align=a1), ops, "enumerated chunk_stream set_mtu while held"))
    for mtu in (7, 188, 1316):
        for sizes in ([mtu], [mtu + 1], [mtu - 1, 1], [mtu - 1, 2], [1, mtu], [0], [mtu, mtu, 0, 1], [1] * 9,
                      [3, 3, 3], [mtu // 2, mtu // 2, mtu // 2]):
            ops = []
            o = 0
            for ln in sizes:
                ops.append([1, "in", bytes(filler(o + i) for i in range(ln)), None, False])
                o += ln
            ops.append([1, "flush", b"", None, False])
            ops.append([1, "rel", b"", None, False])
            out.append(Exe(conf_of("agg", "agg", mtu=mtu), ops, "enumerated agg"))
    return out


def rand_payload(rng, n, syncy):
    if syncy == 2:
        return bytes([0x47]) * n
    out = bytearray()
    for _ in range(n):
        if syncy and rng.chance(1, 6):
            out.append(0x47)
        else:
            v = rng.below(256)
            out.append(v)
    return bytes(out)


def rand_ts_stream(rng, psize, target, bad_ok=True):
    out = bytearray()
    while len(out) < target:
        c = rng.below(12)
        syncy = rng.choice([0, 0, 0, 1, 1, 2])
        if c < 6:
            for _ in range(1 + rng.below(5)):
                out += b"\x47" + rand_payload(rng, psize - 1, syncy)
        elif not bad_ok:
            continue
        elif c < 8:
            out += rand_payload(rng, 1 + rng.below(2 * psize), syncy)
        elif c == 8:
            out += b"\x47" + rand_payload(rng, rng.below(psize - 1), syncy)
        elif c == 9:
            out += bytes([rng.choice([0x46, 0x48, 0x00, 0xb8])]) + rand_payload(rng, psize - 1, syncy)
        elif c == 10:
            out += b"\x47" * (1 + rng.below(4))
        else:
            out += b"\x47" + rand_payload(rng, psize, syncy)      # one octet too many
    return bytes(out)


def chain_exe(rng):
    """chunk_stream -> ts_check -> agg over a well-formed stream of whole packets, cut anywhere and given in
    segmented buffers: what comes out of the last pipe is the stream, in units of whole packets of at most mtu
    octets (the buffers that travel between the pipes are cut, spliced and appended to again)."""
    psize = rng.choice([4, 8, 188])
    k = rng.choice([2, 2, 3, 7])
    mtu = psize * k
    npk = 1 + rng.below(3 * k + 4)
    data = bytearray()
    for i in range(npk):
        data += b"\x47" + bytes(filler(i * psize + j) if filler(i * psize + j) != 0x47 else 0x48 for j in range(1, psize))
    data = bytes(data)
    sizes = rng.choice([[psize], [1, 2, 3], [psize - 1, psize + 1, 1], [mtu], [mtu + psize, 2 * mtu + 1], [1], [0, 1, psize, 3 * psize + 2]])
    ops = [[1, "in", d, rand_seg(rng, len(d)) if rng.chance(1, 2) else None, False] for d, _ in random_cut(rng, data, [], sizes)]
    ops.append([1, "rel", b"", None, False])
    return Exe(conf_of("chain", "chunk_stream", mtu=mtu, align=psize, psize=psize), ops, "random chain")


def random_exe(rng, quick):
    if rng.chance(1, 8):
        return chain_exe(rng)
    mode = rng.choice(["agg", "chunk", "chunk", "sync", "sync", "sync", "check"])
    if mode == "agg":
        mtu = rng.choice([5, 7, 16, 188, 1316])
        insize = rng.choice([0, 0, 1, mtu // 2, mtu, 188])
        ops = []
        o = 0
        for _ in range(1 + rng.below(25)):
            ln = rng.choice([0, 1, 2, 3, mtu - 1, mtu, mtu + 1, 1 + rng.below(mtu), 188])
            ln = min(ln, MAXBUF)
            data = bytes(filler(o + i) for i in range(ln))
            o += ln
            ops.append([1, "in", data, rand_seg(rng, ln) if rng.chance(1, 3) else None, False])
            if rng.chance(1, 15):
                ops.append([1, "flush", b"", None, False])
            if rng.chance(1, 40):
                break
        return Exe(conf_of("agg", "agg", mtu=mtu, insize=insize), ops, "random")
    if mode == "chunk":
        mtu, align, dflt = rng.choice([(5, 2, 0), (7, 3, 0), (3, 1, 0), (4, 3, 0), (10, 4, 0), (9, 8, 0), (1460, 4, 1),
                                       (1460, 4, 0), (1316, 188, 0), (188, 47, 0), (2, 1, 0)])
        ops = []
        o = 0
        total = rng.below(3 * mtu + 8) if rng.chance(3, 4) else rng.below(40)
        while o < total or rng.chance(1, 6):
            ln = min(rng.choice([0, 1, 1, 2, 3, align, mtu, 2 * mtu + 1, 1 + rng.below(2 * mtu)]), MAXBUF, max(total - o, 0))
            data = bytes(filler(o + i) for i in range(ln))
            o += ln
            ops.append([1, "in", data, rand_seg(rng, ln) if rng.chance(1, 3) else None, False])
            if rng.chance(1, 5):
                # the option changes in the middle of the stream, possibly while octets are held
                # (a third of them are settings the pipe refuses: alignment >= MTU, or a zero - nothing may change)
                m2, a2 = rng.choice([(5, 2), (7, 3), (3, 1), (4, 3), (10, 4), (9, 8), (2, 1), (100, 1), (188, 47),
                                     (100, 100), (4, 8), (0, 1), (8, 0), (1, 1)])
                ops.append([1, "set", b"", "%d,%d" % (m2, a2), False])
            if len(ops) > 200:
                break
        return Exe(conf_of("chunk", "chunk_stream", mtu=mtu, align=align, default=bool(dflt)), ops, "random")
    if mode == "sync":
        psize = rng.choice([4, 5, 8, 12, 188, 188, 196, 204]) if not quick else rng.choice([4, 5, 8, 12, 12, 188, 196, 204])
        nsync = rng.choice([2, 2, 3, 4])
        target = rng.below(psize * (nsync + 6)) if psize < 100 else rng.below(psize * (nsync + 4))
        data = rand_ts_stream(rng, psize, target) if target else b""
        data = data[:rng.below(len(data) + 1)] if rng.chance(1, 3) else data
        if psize > 188 and rng.chance(1, 2):
            # whole packets, then the beginning of one more that is at least as long as a 188-octet packet
            # but shorter than the configured size (the sizes 196 / 204 carry a trailer)
            data = rand_ts_stream(rng, psize, psize * (nsync + 1 + rng.below(3)), bad_ok=False)
            data = data[:(len(data) // psize) * psize]
            data += b"\x47" + rand_payload(rng, 187 + rng.below(psize - 188), 0)
        marks = sorted(set(rng.below(len(data) + 1) for _ in range(rng.choice([0, 0, 0, 1, 2]))))
        pipe = rng.choice(["ts_sync", "ts_sync", "ts_align"])
        runs = {}
        for r in (1, 2):
            sizes = rng.choice([[0, 1, 1, 2], [1], [0, 1, 2, 3, psize - 1, psize, psize + 1], [psize], [2 * psize + 1, 7 * psize],
                                [1, psize, 3 * psize, len(data) + 1]])
            ops = [[r, "in", d, rand_seg(rng, len(d)) if rng.chance(1, 3) else None, disc]
                   for d, disc in random_cut(rng, data, marks, sizes)]
            if rng.chance(1, 10):
                ops.insert(rng.below(len(ops) + 1), [r, "flush", b"", None, False])
            if rng.chance(1, 25) and ops:
                ops = ops[:rng.below(len(ops))]          # released early: the precondition is false
            ops.append([r, "rel", b"", None, False])
            runs[r] = ops
        return Exe(conf_of("sync", pipe, psize=psize, nsync=nsync), interleave(rng, runs), "random")
    psize = rng.choice([4, 8, 188])
    indom = rng.chance(1, 2)
    npk = rng.below(12)
    data = rand_ts_stream(rng, psize, npk * psize, bad_ok=not indom)
    if indom:
        data = data[:(len(data) // psize) * psize]
    pipe = rng.choice(["ts_check", "ts_align"])
    runs = {}
    for r in (1, 2):
        sizes = [psize, psize, 2 * psize, 3 * psize, 7 * psize, 0] if indom or rng.chance(1, 2) else \
                [0, 1, psize - 1, psize, psize + 1, 2 * psize, 3 * psize + 2]
        ops = [[r, "in", d, rand_seg(rng, len(d)) if rng.chance(1, 3) else None, False]
               for d, _ in random_cut(rng, data, [], sizes)]
        ops.append([r, "rel", b"", None, False])
        runs[r] = ops
    return Exe(conf_of("check", pipe, psize=psize), interleave(rng, runs), "random")


# ------------------------------------------------------------------ verdicts
def key_of(e, line, inv):
    """Normalised failing history: pipe; call in progress; situation; failure."""
    evs = e.events
    ev = evs[line - 1] if 0 < line <= len(evs) else {"e": "?", "r": 1}
    r = ev.get("r", 1)
    op = "input"
    for x in evs[:line]:
        if x.get("r") == r:
            if x["e"] == "In":
                op = "input(discontinuity)" if x.get("d") else "input"
            elif x["e"] == "Rel":
                op = "release"
            elif x["e"] == "Flush":
                op = "flush"
    if ev["e"] == "Timeout":
        failure = "hang"
    elif ev["e"] == "Crash":
        failure = "crash"
    elif inv:
        failure = sorted(inv)[0].lower()
    else:
        failure = "rejected-" + ev["e"].lower()
    parts = [e.conf["pipe"], op]
    if e.conf["mode"] == "chunk" and op == "release":
        rel = next(i for i, x in enumerate(evs) if x["e"] == "Rel" and x.get("r") == r)
        got = sum(len(x["b"]) for x in evs[:rel] if x["e"] == "In" and x.get("r") == r)
        out = sum(len(x["b"]) for x in evs[:rel] if x["e"] == "Unit" and x.get("r") == r)
        parts.append("remaining<align" if (got - out) % e.conf["align"] else "remaining aligned")
    parts.append(failure)
    return ";".join(parts), ev


def brief(ev):
    d = dict(ev)
    if "b" in d and len(d["b"]) > 24:
        d["b"] = d["b"][:24] + ["... %d octets" % len(ev["b"])]
    return json.dumps(d)


_lock = threading.Lock()


def validate(ctx, hists, tag, max_reject=6):
    """Ctx.validate_histories for a trace module that stops in the first state
    in which a sentence is false and names the sentences itself
    (TRACE_VIOLATES line {names}); an event no action accepts gives
    TRACE_REJECTED_AT line.  Returns [(index, line in the execution, names)]."""
    rejected = []
    start = 0
    rnd = 0
    while start < len(hists):
        path = os.path.join(ctx.build, "%s_%d.ndjson" % (tag, rnd))
        rnd += 1
        with open(path, "w") as f:
            for h in hists[start:]:
                for ev in h:
                    f.write(json.dumps(ev, separators=(",", ":")) + "\n")
        accepted, res, line = ctx.validate_trace(TRACE[0], TRACE[1], path, timeout=900)
        os.remove(path)
        m = re.search(r'"TRACE_VIOLATES",\s*(\d+),\s*\{([^}]*)\}', res.out)
        inv = []
        if m:
            line = int(m.group(1))
            inv = re.findall(r'"(\w+)"', m.group(2))
        elif accepted:
            with _lock:
                ctx.traces += len(hists) - start
            break
        elif line is None:
            raise vlib.ToolError("trace validation gave no verdict\n" + res.out[-2000:])
        acc = 0
        k = None
        for i, h in enumerate(hists[start:]):
            if line <= acc + len(h):
                k = i
                break
            acc += len(h)
        if k is None:
            raise vlib.ToolError("trace validation: rejected line %d beyond the trace" % line)
        rejected.append((start + k, line - acc, inv))
        with _lock:
            ctx.traces += k
        start += k + 1
        if len(rejected) >= max_reject:
            break
    return rejected


def validate_pool(ctx, exes, tag, jobs=3):
    """Rechunk_Trace over the recorded executions (several TLC runs side by
    side).  Returns the suspects [(exe, line, invariants)]."""
    suspects = []
    err = []
    if not exes:
        return suspects
    step = max(1, (len(exes) + jobs - 1) // jobs)

    def one(k, part):
        try:
            rej = validate(ctx, [e.events for e in part], tag="%s%d" % (tag, k), max_reject=6)
            for idx, line, inv in rej:
                suspects.append((part[idx], line, inv))
        except Exception as ex:
            err.append(ex)
    ths = [threading.Thread(target=one, args=(k, exes[b:b + step])) for k, b in enumerate(range(0, len(exes), step))]
    for t in ths:
        t.start()
    for t in ths:
        t.join()
    if err:
        raise err[0] if isinstance(err[0], vlib.ToolError) else vlib.ToolError("trace validation driver: %r" % err[0])
    return suspects


def shrink(ctx, binp, e, key, budget=8):
    """Shorter execution with the same verdict key (drops whole calls), within
    a budget of attempts.  An execution abandoned on its unit budget is shrunk
    on the harness alone (the key of a time-out is read off the recorded
    events; TLC judges the final candidate); otherwise every candidate is
    judged by TLC (a silent hang costs an alarm per attempt)."""
    best = e
    changed = True
    cheap = bool(e.fail) and e.fail[2] == "budget"
    attempts = 60 if cheap else budget
    while changed and attempts > 0:
        changed = False
        for i in range(len(best.ops)):
            if best.ops[i][1] == "rel" or attempts <= 0:
                continue
            attempts -= 1
            cand = Exe(best.conf, [list(o) for j, o in enumerate(best.ops) if j != i], best.source)
            execute(ctx, binp, [cand], jobs=1)
            if e.fail:
                same = bool(cand.fail) and key_of(cand, len(cand.events), [])[0] == key
            else:
                r = validate(ctx, [cand.events], tag="shr")
                same = bool(r) and key_of(cand, r[0][1], r[0][2])[0] == key
            if same:
                best = cand
                changed = True
                break
    return best


def report(ctx, binp, e, line, inv):
    key, ev = key_of(e, line, inv)
    again = Exe(e.conf, [list(o) for o in e.ops], e.source)
    execute(ctx, binp, [again], jobs=1)
    r2 = validate(ctx, [again.events], tag="re")
    if not r2:
        raise vlib.ToolError("rejected execution did not reproduce (flaky harness?): %s" % json.dumps(e.to_replay())[:800])
    key2, ev2 = key_of(again, r2[0][1], r2[0][2])
    small = shrink(ctx, binp, again, key2)
    rs = validate(ctx, [small.events], tag="sm")
    if not rs:
        small, rs = again, r2
    keyf, evf = key_of(small, rs[0][1], rs[0][2])
    c = small.conf
    sett = {"agg": "mtu=%d insize=%d" % (c["mtu"], c["insize"]), "chunk": "mtu=%d align=%d" % (c["mtu"], c["align"]),
            "sync": "packet=%d sync=%d" % (c["psize"], c["nsync"]), "check": "packet=%d" % c["psize"],
            "chain": "chunk_stream -> ts_check -> agg, mtu=%d packet=%d" % (c["mtu"], c["psize"])}[c["mode"]]
    script = "; ".join(cmd[:70] for cmd, meta in small.cmds if meta[0] == "op")
    what = "%s: %s (%s): event %d %s of the real code is rejected by Rechunk_Trace%s | script: %s" % (
        keyf, c["pipe"], sett, rs[0][1], brief(evf), (" - invariant " + ",".join(rs[0][2])) if rs[0][2] else "", script[:900])
    rp = small.to_replay()
    rp["events"] = [json.loads(brief(x)) for x in small.events[:60]]
    rp["rejected_line"] = rs[0][1]
    rp["invariants"] = rs[0][2]
    ctx.violation(keyf, what, rp)


def judge(ctx, binp, suspects, most=4):
    """One report per key (at most `most`: further keys are listed in the evidence)."""
    done = []
    for e, line, inv in suspects:
        key, _ = key_of(e, line, inv)
        if key in done:
            continue
        done.append(key)
        if len(done) <= most:
            report(ctx, binp, e, line, inv)
    if len(done) > most:
        ctx.extra["further_rejected_keys_not_reported"] = done[most:]


# -------------------------------------------------------------------- models
def run_models(ctx, jobs, par):
    res = {}
    err = []
    sem = threading.Semaphore(par)

    def one(j):
        with sem:
            try:
                res[j["cfg"]] = ctx.tlc("Rechunk", "MCRechunk_%s.cfg" % j["cfg"], workers=j.get("workers", 1),
                                        coverage=bool(j.get("coverage")), heap=j.get("heap", "3g"),
                                        timeout=j.get("timeout", 600), count=False, name=j["cfg"],
                                        simulate=j.get("simulate"), depth=j.get("depth"))
            except Exception as ex:
                err.append(ex)
    ths = [threading.Thread(target=one, args=(j,)) for j in jobs]
    for t in ths:
        t.start()
    for t in ths:
        t.join()
    if err:
        raise err[0] if isinstance(err[0], vlib.ToolError) else vlib.ToolError("TLC driver: %r" % err[0])
    return res


COMMON = ["Input1", "ReleaseStart", "Return"]
COV = {
    "agg": COMMON,
    "chunk": COMMON + ["ChunkInEmit", "ChunkInExit", "ChunkFlushEmit", "ChunkFlushTail", "ChunkFlushExit"],
    "sync": COMMON + ["Input2", "SyncScanNone", "SyncScanFound", "SyncChkAll", "SyncChkShort", "SyncChkMismatch",
                      "SyncChkNext", "SyncConsume", "SyncExt", "SyncFlushEmit", "SyncFlushDrop"],
    "check": COMMON + ["Input2", "CheckSplitEmit", "CheckSplitBad", "CheckLastEmit", "CheckLastBad", "CheckRunt"],
}
NEG_EXPECT = {"neg_chunk_s4": "ReleaseTerminates", "neg_sync_nolook": "CutInvariance", "neg_sync_noconsume": "UnitSize",
              "neg_agg_nocheck": "UnitSize", "neg_agg_norelflush": "Conservation", "neg_check_nosync": "UnitSize",
              "neg_sync_earlyB": "CutInvarianceNoPre"}


def counterexample_exe(res, mode):
    """The counterexample of a broken chunk_stream variant as a script for the
    real code (settings, buffers of the finished calls, then release)."""
    conf = res.last_value("conf") or ""
    m = re.search(r"mtu \|-> (\d+)", conf), re.search(r"align \|-> (\d+)", conf)
    hist = res.last_value("hist") or ""
    bufs = [[int(x) for x in re.findall(r"\d+", bb)] for bb in re.findall(r"b \|-> <<([\d, ]*)>>", hist)]
    ops_kind = re.findall(r'op \|-> "(\w+)"', hist)
    call = res.last_value("call") or ""
    if not (m[0] and m[1]):
        return None
    ops = []
    o = 0
    for kind, bb in zip(ops_kind, bufs):
        if kind == "in":
            ops.append([1, "in", bytes(filler(o + i) for i in range(len(bb))), None, False])
            o += len(bb)
    if 'op |-> "in"' in call:
        bb = re.search(r"b \|-> <<([\d, ]*)>>", call)
        n = len(re.findall(r"\d+", bb.group(1))) if bb else 0
        ops.append([1, "in", bytes(filler(o + i) for i in range(n)), None, False])
    ops.append([1, "rel", b"", None, False])
    return Exe(conf_of(mode, "chunk_stream", mtu=int(m[0].group(1)), align=int(m[1].group(1))), ops,
               "counterexample of the broken model variant chunk_s4")


def run(ctx):
    quick = ctx.quick
    side = {"err": [], "bin": None}
    t0 = time.time()
    phases = {}

    def phase(name):
        phases[name] = round(time.time() - t0, 1)
        if os.environ.get("C14_TIMING"):
            sys.stderr.write("[c14] %-28s t=%.1fs\n" % (name, time.time() - t0))

    def grouped_failures(exes):
        """Executions ended by a time-out (or a crash) inside a call: the
        specification has to condemn them; one representative (the smallest)
        per key is given to TLC."""
        failed = {}
        for e in exes:
            if e.fail:
                failed.setdefault(key_of(e, len(e.events), [])[0], []).append(e)
        out = []
        for key, lst in sorted(failed.items()):
            lst.sort(key=lambda x: (sum(len(o[2]) for o in x.ops), len(x.events)))
            r = validate(ctx, [lst[0].events], tag="fail")
            if not r:
                raise vlib.ToolError("the trace specification accepted an execution with a time-out / crash (%s)" % key)
            out.append((lst[0], r[0][1], r[0][2]))
            with _lock:
                tally = ctx.extra.setdefault("executions_ended_by_timeout_or_crash", {})
                tally[key] = tally.get(key, 0) + len(lst)
        return out

    def code_to_spec():
        """3. code -> spec: build the harness, then run and validate the
        enumerated + seeded random executions (while TLC works on the models)."""
        try:
            side["bin"] = build(ctx)
            phase("harness built")
            rng = vlib.Rng(ctx.seed)
            dexes = enumerated(quick)
            dexes += [random_exe(rng, quick) for _ in range(700 if quick else 40000)]
            execute(ctx, side["bin"], dexes, jobs=(3 if quick else 6))
            phase("random pool executed")
            side["dexes"] = dexes
            side["suspects"] = grouped_failures(dexes)
            pool = [e for e in dexes if not e.fail and not e.skipped]
            side["suspects"] += validate_pool(ctx, pool, "cs", jobs=(2 if quick else 6))
            side["pool"] = pool
            phase("random pool validated")
        except Exception as ex:
            side["err"].append(ex)
    bt = threading.Thread(target=code_to_spec)
    bt.start()

    # ---- 1. model checking
    allcov = sorted(set(COV["agg"] + COV["chunk"] + COV["sync"] + COV["check"]))
    if quick:
        pos = [dict(cfg="all_q", coverage=allcov, workers=2, heap="4g"),
               dict(cfg="sync_q", coverage=COV["sync"], workers=2),
               dict(cfg="syncd_q", coverage=COV["sync"] + ["SyncAppend"])]
        negs = ["neg_chunk_s4", "neg_sync_nolook", "neg_agg_norelflush"]
        emit = [dict(cfg="emit_q", timeout=600), dict(cfg="emit_syncd_q", timeout=600)]
        sim = [dict(cfg="sim", simulate=150, depth=600, timeout=600)]
    else:
        pos = [dict(cfg="all_t", coverage=allcov, workers=6, heap="8g", timeout=1500),
               dict(cfg="sync_t", coverage=COV["sync"] + ["SyncAppend"], workers=6, heap="8g", timeout=1500),
               dict(cfg="all_q", coverage=allcov), dict(cfg="sync_q", coverage=COV["sync"]),
               dict(cfg="syncd_q", coverage=COV["sync"] + ["SyncAppend"])]
        negs = list(NEG_EXPECT)
        emit = [dict(cfg="emit_t", timeout=1500, heap="8g", workers=2), dict(cfg="emit_syncd_t", timeout=1500, heap="6g"),
                dict(cfg="emit_q", timeout=600), dict(cfg="emit_syncd_q", timeout=600)]
        sim = [dict(cfg="sim", simulate=2500, depth=600, timeout=1500, workers=2)]
    neg = [dict(cfg=c) for c in negs]
    try:
        res = run_models(ctx, pos + neg + emit + sim, par=(9 if quick else 6))
    finally:
        phase("models checked")
        bt.join()
    if side["err"]:
        ex = side["err"][0]
        raise ex if isinstance(ex, vlib.ToolError) else vlib.ToolError("code->spec driver: %r" % ex)
    binp = side["bin"]
    for j in pos:
        r = res[j["cfg"]]
        ctx.model_must_hold(r, "Rechunk/" + j["cfg"])
        ctx.require_coverage(r, j["coverage"])
        ctx.states += r.distinct
        ctx.transitions += r.generated
    for j in emit + sim:
        ctx.model_must_hold(res[j["cfg"]], "Rechunk/" + j["cfg"])
    ctx.exhaustive = True
    for j in neg:
        r = res[j["cfg"]]
        if NEG_EXPECT[j["cfg"]] not in r.violated:
            raise vlib.ToolError("vacuity: negative configuration %s not rejected by TLC as expected (violated=%s)"
                                 % (j["cfg"], r.violated))
        ctx.extra.setdefault("negative_configurations", {})[j["cfg"]] = r.violated

    rng = vlib.Rng(ctx.seed + 7919)
    # ---- 2. spec -> code
    behs = []
    seen = set()
    for j in emit + sim:
        for b in res[j["cfg"]].beh():
            k = json.dumps(b, sort_keys=True)
            if k not in seen:
                seen.add(k)
                behs.append((b, j["cfg"]))
    if len(behs) < 100:
        raise vlib.ToolError("TLC emitted only %d behaviours" % len(behs))
    rexes = []
    for i, (b, src) in enumerate(behs):
        for e in beh_exes(b, rng, i):
            e.source += " (%s)" % src
            rexes.append(e)
    cx = counterexample_exe(res["neg_chunk_s4"], "chunk")
    if cx is None:
        raise vlib.ToolError("could not read the counterexample of neg_chunk_s4")
    rexes.append(cx)
    execute(ctx, binp, rexes, jobs=(6 if quick else 8))
    phase("behaviours replayed")
    diffs = []
    differing = []
    for e in rexes:
        d = None if e.skipped else lockstep(e)
        if d:
            differing.append(e)
            if len(diffs) < 5:
                diffs.append({"source": e.source, "settings": e.conf, "difference": d})
    suspects = grouped_failures(rexes)
    # of the replayed behaviours, those that differ from the prediction (verdict
    # rule: only the abstract specification decides) and a sample of the others
    # are validated like the random pool
    stride = 6 if quick else 3
    dset = set(id(e) for e in differing)
    sample = [e for i, e in enumerate(rexes) if (i % stride == 0 or e is cx) and id(e) not in dset]
    rpool = [e for e in differing + sample if not e.fail and not e.skipped]
    suspects += validate_pool(ctx, rpool, "rs", jobs=(4 if quick else 8))
    dexes = side["dexes"]
    pool = side["pool"] + rpool
    suspects = side["suspects"] + suspects
    ctx.traces = max(ctx.traces, len(pool) - len(suspects))
    phase("traces validated")
    ctx.evaluations += len(rexes) + len(dexes)
    ctx.extra["model_behaviours_emitted"] = len(behs)
    ctx.extra["executions_replayed_from_model"] = len(rexes)
    ctx.extra["replayed_calls_compared"] = sum(sum(1 for p in (e.pred or []) if p is not None) for e in rexes)
    ctx.extra["behaviours_differing_from_prediction"] = len(differing)
    if diffs:
        ctx.extra["first_differences"] = diffs
    ctx.extra["random_and_enumerated_executions"] = len(dexes)
    ctx.extra["executions_validated_by_trace_spec"] = len(pool)
    ctx.extra["events_validated"] = sum(len(e.events) for e in pool)
    ctx.extra["octets_streamed"] = sum(len(o[2]) for e in rexes + dexes for o in e.ops)
    ctx.extra["twin_runs_with_equal_total_input"] = sum(1 for e in pool if twin_equal(e))
    ctx.extra["timeouts_observed"] = sum(1 for e in rexes + dexes if e.fail and e.fail[0] == "timeout")
    ctx.extra["executions_skipped_after_repeated_hangs"] = sum(1 for e in rexes + dexes if e.skipped)
    ctx.extra.setdefault("executions_ended_by_timeout_or_crash", {})
    for e in rexes:
        if e.conf["mode"] == "sync" and len(e.events) > 8 and e.pred and sum(len(p or []) for p in e.pred) >= 2:
            ctx.sample({"source": e.source, "settings": e.conf,
                        "calls": [{"run": o[0], "op": o[1], "octets": len(o[2]), "disc": o[4],
                                   "predicted_units": [len(u) for u in (p or [])],
                                   "observed_units": [len(u) for u in (e.percall[i] or [])]}
                                  for i, (o, p) in enumerate(zip(e.ops, e.pred))][:12]}, limit=2)
            break
    for e in dexes:
        if e.source == "random" and 6 < len(e.events) < 40:
            ctx.sample({"source": "random seed=%d" % ctx.seed, "settings": e.conf, "events": [json.loads(brief(x)) for x in e.events[:10]]}, limit=3)
            break
    judge(ctx, binp, suspects)
    phase("suspects judged")
    ctx.extra["phase_seconds"] = phases
    if differing and not ctx.violations and not ctx.known_hits:
        ctx.extra["model_drift"] = True
        ctx.notes.append("real code differs from the detailed model's prediction without violating the abstract specification")
    ctx.assumptions += [
        "settings in their domain: MTU >= 1, chunk_stream alignment < MTU (the setter refuses the rest), packet size >= 2, ts_sync count >= 2 (the setter refuses 1), settings fixed before the first buffer",
        "ts_check (and ts_align on block.mpegtsaligned.) works buffer by buffer: CutInvariance is claimed for it only on its declared domain (buffers made of whole sync-led packets); outside it only Subsequence / WholePackets / UnitSize are judged",
        "agg: a buffer larger than the MTU is not accepted (it cannot be output whole within the MTU); the packing policy is not prescribed",
        "chunk_stream: after release fewer than `align` octets may be missing (the remainder cannot form an aligned block)",
        "buffers up to 3900 octets, streams up to ~12 kB; attributes (dates, flow definition) of the units are not examined",
    ]
    ctx.trusted += ["TLC", "harness/pipe_driver.c + harness/pd_ext_c14.c (command interpreter, recording sink, step budget / alarm)",
                    "harness/shim/bitstream/mpeg/ts.h (clean-room biTStream shim: TS_SIZE, TS_SYNC)",
                    "gcc AddressSanitizer / UndefinedBehaviorSanitizer"]


def twin_equal(e):
    ins = {}
    for o in e.ops:
        if o[1] == "in":
            ins[o[0]] = ins.get(o[0], b"") + o[2]
    return e.conf["mode"] in TSM and len(ins) == 2 and ins.get(1) == ins.get(2)


def replay(ctx, rp):
    """bin/check C14 --replay file: re-run the stored execution."""
    binp = build(ctx)
    e = Exe.from_replay(rp["replay"])
    execute(ctx, binp, [e], jobs=1)
    r = validate(ctx, [e.events], tag="replay")
    if r:
        key, ev = key_of(e, r[0][1], r[0][2])
        print("VIOLATION property=C14 replay reproduced: %s event %d %s %s" % (key, r[0][1], brief(ev), r[0][2]))
        return 1
    print("OK property=C14 replay accepted")
    return 0
