"""C15 - TS and PES packetisation round-trips payload, timing and continuity.

1. TLC checks spec/TsPackets.tla exhaustively for small bounds: mode D (the
   decapsulator state machine of upipe_ts_decaps.c against the abstract
   carried-payload / counter-gap rules), mode R (access units -> PES -> TS
   packets as upipe_ts_encaps.c builds them -> ts_decaps -> pes_decaps, octet
   counts, markers and time stamps over a small modulus) and mode P (PES
   packets cut into arbitrary chunks, one chunk possibly lost), with a
   coverage guard; the negative variants must be rejected.
2. spec -> code: behaviours emitted by TLC (BFS and simulation) with the
   results the specification predicts are executed on the real pipes by
   harness/replay_ts.c (ASan + UBSan, clean-room biTStream shim, independent
   reference serializer / parser) and compared field by field; the
   counterexamples of the decapsulator variants are executed as well.
3. code -> spec: seeded random executions (well-formed packet sequences with
   adaptation fields 0..183, stuffing, PCR, duplicates, missing packets, also
   behind ts_pid_filter and ts_split; PES packets cut at random; access units
   through ts_pes_encaps and through ts_encaps with PCR insertion and idle
   packets; corrupt packets / chunks) are recorded and validated by
   spec/TsPackets_Trace.tla; one field of accepted traces is corrupted and
   must be rejected.
A violation is reported only for an execution of the real code that the trace
specification rejects twice (re-run before reporting).
"""
import json, os, re, threading
import vlib

LEVEL = "model_checking"
SRCS = (["replay_ts.c"] +
        ["lib/upipe/%s.c" % n for n in ("umem_alloc", "udict_inline", "uref_std", "ubuf_block_mem",
                                        "ubuf_mem_common", "uprobe")] +
        ["lib/upipe-ts/%s.c" % n for n in ("upipe_ts_decaps", "upipe_ts_pes_decaps", "upipe_ts_pes_encaps",
                                           "upipe_ts_encaps", "upipe_ts_split", "upipe_ts_pid_filter")])
FLAGS = ["-I", vlib.HARNESS + "/shim"]
TRACE = ("TsPackets_Trace", "TsPackets_Trace.cfg")
PIPES = {"D": "ts_decaps", "F": "ts_pid_filter+ts_decaps", "P": "ts_pes_decaps", "Q": "ts_pes_encaps+ts_pes_decaps",
         "E": "ts_encaps+ts_decaps+ts_pes_decaps", "X": "ts_decaps+ts_pes_decaps"}
POW33 = 1 << 33
TLC_SLOTS = threading.Semaphore(max(1, int(os.environ.get("VERIF_C15_SLOTS", "5"))))   # TLC runs side by side


# ------------------------------------------------------------------ executions
class Exe:
    """One execution: the commands sent to the harness and, after the run,
    the lines it printed and the events made of them."""
    def __init__(self, cmds, source, pred=None, validate=True):
        self.cmds = cmds
        self.source = source
        self.pred = pred            # behaviour predicted by TLC (spec -> code)
        self.validate = validate    # judged by the trace specification
        self.lines = None
        self.events = None

    def script(self, i):
        return "exec %d\n%s\nend\n" % (i, "\n".join(self.cmds))


def kv(line):
    d = {}
    for t in line.split()[1:]:
        k, _, v = t.partition("=")
        d[k] = v
    return d


def hexlist(h):
    return [] if h in ("-", "") else [int(h[i:i + 2], 16) for i in range(0, len(h), 2)]


def limbs33(v):
    return [(v >> 32) & 0xffff, (v >> 16) & 0xffff, v & 0xffff]


def limbs27(v):
    """27 MHz value as [q2, q1, q0, r]: v = (q2 * 2^32 + q1 * 2^16 + q0) * 300 + r."""
    q, r = divmod(v, 300)
    return [q >> 32, (q >> 16) & 0xffff, q & 0xffff, r]


TS_FIELDS = ("size", "sync", "tei", "pusi", "pid", "scr", "afc", "cc", "af", "disc", "rai", "pcrf", "plen", "pay")


def to_events(lines):
    evs = to_events_flat(lines)
    if evs and evs[0].get("mode") == "S":
        # one output of ts_split = a PID filter with that PID enabled from the
        # start: one segment per output (its packets in, what its sink received)
        pids = evs[0]["pids"]
        out = []
        for k, pid in enumerate(pids):
            out += [{"e": "Reset", "mode": "F"}, {"e": "AddPid", "pid": pid}]
            for ev in evs[1:]:
                if ev["e"] in ("Out", "NoBuf", "Broken"):
                    if ev.get("sink") == k:
                        out.append({f: v for f, v in ev.items() if f != "sink"})
                elif ev["e"] == "San":
                    if k == len(pids) - 1:
                        out.append(ev)
                elif ev["e"] != "End":
                    out.append(ev)
            if out[-1]["e"] != "San":
                out.append({"e": "End"})
        return out
    for ev in evs:
        ev.pop("sink", None)
    return evs


def to_events_flat(lines):
    evs = []
    mode = None
    for ln in lines:
        tag = ln.split(" ", 1)[0]
        if tag == "san":
            d = json.loads(ln[4:])
            d["e"] = "San"
            evs.append(d)
            continue
        d = kv(ln)
        if tag == "mode":
            mode = d["m"]
            ev = {"e": "Reset", "mode": mode}
            if mode == "E":
                ev["pid"] = int(d["pid"])
                ev["cc"] = int(d["cc"])
                ev["al"] = int(d.get("al", 1))
            if mode == "S":
                ev["pids"] = [int(x) for x in d["pids"].split(",")]
            evs.append(ev)
        elif tag in ("addpid", "delpid"):
            evs.append({"e": "AddPid" if tag == "addpid" else "DelPid", "pid": int(d["pid"])})
        elif tag in ("pkt", "ts"):
            ev = {"e": "Pkt" if tag == "pkt" else "Ts"}
            for f in TS_FIELDS:
                ev[f] = int(d[f])
            evs.append(ev)
        elif tag == "raw":
            evs.append({"e": "Raw", "size": int(d["size"])})
        elif tag == "out":
            sink = int(d.get("sink", 0))
            if "nobuf" in d:
                evs.append({"e": "NoBuf", "sink": sink})
            elif "broken" in d:
                evs.append({"e": "Broken", "n": int(d["n"]), "sink": sink})
            elif mode in ("D", "X", "F", "S"):
                evs.append({"e": "Out", "n": int(d["n"]), "pay": int(d["pay"]), "start": int(d["start"]),
                            "disc": int(d["disc"]), "rap": int(d["rap"]), "suf": int(d["suf"]), "sink": sink})
            else:
                evs.append({"e": "POut", "b": hexlist(d["hex"]), "start": int(d["start"]), "disc": int(d["disc"]),
                            "rap": int(d["rap"]), "dtsf": int(d["dtsf"]), "dts": limbs27(int(d["dts"])),
                            "delf": int(d["delf"]), "del": limbs27(int(d["del"]))})
        elif tag == "pes":
            evs.append({"e": "Pes", "b": hexlist(d["hex"]), "ptsf": int(d["ptsf"]), "dtsf": int(d["dtsf"]),
                        "pts": limbs33(int(d["pts"])), "dts": limbs33(int(d["dts"])),
                        "pd": 1 if int(d["sid"]) == 190 else 0})        # padding_stream: carries nothing
        elif tag == "au":
            evs.append({"e": "Au", "b": hexlist(d["hex"]), "ptsf": int(d["ptsf"]), "dtsf": int(d["dtsf"]),
                        "pts": limbs27(int(d["pts"])), "dts": limbs27(int(d["dts"])),
                        "rap": int(d["rap"]), "disc": int(d["disc"])})
        elif tag in ("chunk", "ev", "ref", "drained", "eos"):
            pass
        else:
            raise vlib.ToolError("replay_ts: unexpected output line: " + ln[:200])
    if not evs or evs[-1]["e"] != "San":
        evs.append({"e": "End"})
    return evs


def run_chunk(ctx, binp, exes, base, out, err):
    try:
        text = "".join(e.script(base + i) for i, e in enumerate(exes))
        r = ctx.run([binp], input=text, timeout=1500)
        if r.returncode != 0:
            raise vlib.ToolError("replay_ts failed rc=%d: %s" % (r.returncode, (r.stderr or "")[-1500:]))
        cur = None
        for line in r.stdout.splitlines():
            if line.startswith("exec "):
                cur = int(line.split()[1])
                out[cur] = []
            elif line == "end":
                cur = None
            elif line.startswith("err"):
                raise vlib.ToolError("replay_ts: " + line)
            elif cur is not None:
                out[cur].append(line)
    except Exception as ex:      # re-raised in the main thread
        err.append(ex)


def execute(ctx, binp, exes, jobs=6):
    """Run the executions on the real code (in parallel chunks)."""
    out = {}
    err = []
    n = len(exes)
    if n == 0:
        return
    step = max(1, (n + jobs - 1) // jobs)
    ths = []
    for base in range(0, n, step):
        t = threading.Thread(target=run_chunk, args=(ctx, binp, exes[base:base + step], base, out, err))
        t.start()
        ths.append(t)
    for t in ths:
        t.join()
    if err:
        raise err[0] if isinstance(err[0], vlib.ToolError) else vlib.ToolError("harness driver: %r" % err[0])
    for i, e in enumerate(exes):
        if i not in out or not out[i] or not out[i][0].startswith("mode "):
            raise vlib.ToolError("replay_ts: no output for execution %d (%s)" % (i, e.source))
        e.lines = out[i]
        e.events = to_events(out[i])


# ------------------------------------------------------------------ generators
def b(x):
    return 1 if x else 0


def pkt_cmd(cc, afc=1, af=-1, pusi=0, disc=0, rai=0, pcrf=0, pcrb=0, pcre=0, pay=1, pid=68, extra=""):
    s = "pkt cc=%d afc=%d af=%d pusi=%d disc=%d rai=%d pcrf=%d pay=%d pid=%d" % (
        cc, afc, af, pusi, disc, rai, pcrf, pay, pid)
    if pcrf:
        s += " pcrb=%d pcre=%d" % (pcrb, pcre)
    return s + extra


def rand_af(rng, payload):
    """Adaptation field of a well-formed packet."""
    if not payload:
        af = 183
    elif rng.chance(1, 2):
        return dict(afc=1, af=-1)
    else:
        af = rng.choice([0, 1, 2, 7, 8, 20, 100, 181, 182]) if rng.chance(2, 3) else rng.below(183)
    d = dict(afc=3 if payload else 2, af=af)
    if af >= 1:
        d["disc"] = b(rng.chance(1, 8))
        d["rai"] = b(rng.chance(1, 4))
    if af >= 7 and rng.chance(1, 2):
        d["pcrf"] = 1
        d["pcrb"] = rng.next() % POW33
        d["pcre"] = rng.below(300)
    return d


def gen_d(rng, n):
    """A sender with a continuity counter: payload packets, adaptation-field-only
    packets, duplicates, missing packets (also just before a packet without
    payload), segmented buffers."""
    cmds = ["mode D"]
    cc = rng.below(16)
    prev = None
    pid = rng.choice([0x44, 0x1fff, 0x100])
    for _ in range(n):
        c = rng.below(20)
        seg = " seg=%d" % rng.choice([1, 3, 4, 5, 6, 11, 12, 100, 187]) if rng.chance(1, 6) else ""
        if c >= 15 and c < 17:                      # some packets went missing
            cc = (cc + 1 + rng.below(3)) % 16
            c = rng.below(13)
        if c < 10:
            cc = (cc + 1) % 16
            prev = pkt_cmd(cc, pusi=b(rng.chance(1, 4)), pay=1 + rng.below(4), pid=pid, **rand_af(rng, True))
            cmds.append(prev + seg)
        elif c < 13:
            cmds.append(pkt_cmd(cc, pay=0, pid=pid, **rand_af(rng, False)) + seg)
        elif c < 15 and prev:
            cmds.append(re.sub(r"pcrb=\d+", "pcrb=%d" % (rng.next() % POW33), prev) + seg)
        elif c == 17 and prev:                      # a third copy
            cmds += [prev, prev]
        elif c == 18:                               # the counter moved while we were not looking
            cc = (cc + 1 + rng.below(14)) % 16
            cmds.append(pkt_cmd(cc, pay=0, pid=pid, **rand_af(rng, False)))
        else:                                       # same counter, other payload (16 missing)
            cmds.append(pkt_cmd(cc, pusi=0, pay=5 + rng.below(3), pid=pid, **rand_af(rng, True)))
    return Exe(cmds, "random D")


def gen_fs(rng, n, split):
    """PID routing: three senders with their own counters behind ts_pid_filter
    (PIDs enabled and disabled on the way) or ts_split (one output per PID, a
    PID possibly twice, one PID without output)."""
    pids = [68, 69, rng.choice([70, 8191, 0])]
    if split:
        cmds = ["mode S pids=" + rng.choice(["68,69", "69,68", "68,69,68", "68", "69,69"])]
    else:
        cmds = ["mode F"]
        if rng.chance(3, 4):
            cmds.append("addpid pid=%d" % rng.choice(pids))
    cc = dict((p, rng.below(16)) for p in pids)
    prev = {}
    for _ in range(n):
        c = rng.below(14)
        p = rng.choice(pids)
        if c == 0 and not split:
            cmds.append("addpid pid=%d" % p)
        elif c == 1 and not split:
            cmds.append("delpid pid=%d" % p)
        elif c < 9:
            cc[p] = (cc[p] + 1) % 16
            prev[p] = pkt_cmd(cc[p], pusi=b(rng.chance(1, 4)), pay=1 + rng.below(4), pid=p, **rand_af(rng, True))
            cmds.append(prev[p])
        elif c < 11:
            cmds.append(pkt_cmd(cc[p], pay=0, pid=p, **rand_af(rng, False)))
        elif c == 11 and p in prev:
            cmds.append(prev[p])
        elif c == 12:
            cc[p] = (cc[p] + 1 + rng.below(3)) % 16
        elif rng.chance(1, 3):
            cmds.append("raw hex=%s" % rand_hex(rng, rng.choice([3, 4, 188])))
    return Exe(cmds, "random S" if split else "random F")


def rand_hex(rng, n):
    return "".join("%02x" % (rng.next() & 0xff) for _ in range(n)) or "-"


def gen_corrupt_ts(rng, n, mode):
    """Arbitrary corrupt packets: random octets of any size, damaged and
    truncated packets, between valid ones."""
    cmds = ["mode " + mode]
    cc = rng.below(16)
    for _ in range(n):
        c = rng.below(10)
        seg = " seg=%d" % rng.choice([1, 3, 4, 5, 6, 11, 12]) if rng.chance(1, 4) else ""
        if c < 3:
            cc = (cc + 1) % 16
            cmds.append(pkt_cmd(cc, pusi=b(rng.chance(1, 3)), pay=1 + rng.below(4), **rand_af(rng, True)) + seg)
        elif c < 6:
            cc = (cc + 1) % 16
            flips = ",".join("%d:%d" % (rng.choice([0, 1, 2, 3, 3, 4, 4, 4, 5, 5, 6, 11, rng.below(188)]),
                                        1 + rng.below(255)) for _ in range(1 + rng.below(3)))
            x = " flip=" + flips
            if rng.chance(1, 3):
                x += " trunc=%d" % rng.choice([0, 1, 3, 4, 5, 6, 7, 11, 12, 13, 100, 187])
            cmds.append(pkt_cmd(cc, pusi=b(rng.chance(1, 3)), pay=1 + rng.below(4),
                                **rand_af(rng, rng.chance(3, 4))) + x + seg)
        elif c < 8:
            size = rng.choice([0, 1, 2, 3, 4, 5, 6, 7, 11, 12, 13, 188, 188, 200]) if rng.chance(2, 3) else rng.below(260)
            h = rand_hex(rng, size)
            if size >= 4 and rng.chance(2, 3):      # plausible header, arbitrary rest
                h = "47" + h[2:6] + "%02x" % ((rng.below(4) << 4) | 0x20 * rng.below(2) | rng.below(16)) + h[8:]
            cmds.append("raw hex=%s%s" % (h, seg))
        else:
            cmds.append(pkt_cmd(cc, pay=0, **rand_af(rng, False)) + (" trunc=%d" % rng.below(188) if rng.chance(1, 2) else ""))
    return Exe(cmds, "random corrupt " + mode)


def rand_stamps33(rng):
    """(ptsf, dtsf, pts, dts) as 33-bit values."""
    c = rng.below(6)
    if c == 0:
        return 0, 0, 0, 0
    pts = rng.choice([0, 1, 5, 3002, POW33 - 1, POW33 - 3003, 1 << 32, 900000]) if rng.chance(1, 2) else rng.next() % POW33
    if c <= 2:
        return 1, 0, pts, 0
    d = rng.choice([0, 1, 3003, 5400000, 5400001, 1 << 32, POW33 - 1]) if rng.chance(2, 3) else rng.below(5400000)
    return 1, 1, pts, (pts - d) % POW33


def rand_cut(rng, total):
    c = rng.below(5)
    if c == 0:
        return ""
    if c == 1:
        return "184"
    sizes = []
    left = total
    while left > 0 and len(sizes) < 60:
        s = rng.choice([1, 1, 2, 3, 5, 6, 8, 9, 14, 19, 30, 184])
        sizes.append(s)
        left -= s
    return ",".join(map(str, sizes))


def gen_p(rng, n):
    cmds = ["mode P"]
    for _ in range(n):
        ptsf, dtsf, pts, dts = rand_stamps33(rng)
        pad = rng.choice([0, 0, 0, 1, 2, 7, 30])
        size = rng.choice([0, 1, 2, 10, 165, 184, 400]) if rng.chance(1, 2) else rng.below(300)
        sid = rng.choice([224, 224, 192, 189, 191, 190])
        seg = " seg=%d" % rng.choice([1, 2, 5, 6, 8, 9, 13]) if rng.chance(1, 5) else ""
        cmds.append("pes sid=%d pad=%d ptsf=%d dtsf=%d pts=%d dts=%d n=%d pay=%d cut=%s%s" % (
            sid, pad, ptsf, dtsf, pts, dts, size, 1 + rng.below(1000), rand_cut(rng, size + 30), seg))
    return Exe(cmds, "random P")


def gen_corrupt_p(rng, n):
    cmds = ["mode P"]
    for _ in range(n):
        c = rng.below(4)
        if c == 0:
            ptsf, dtsf, pts, dts = rand_stamps33(rng)
            cmds.append("pes sid=224 pad=%d ptsf=%d dtsf=%d pts=%d dts=%d n=%d pay=%d cut=%s" % (
                rng.below(3), ptsf, dtsf, pts, dts, rng.below(40), 1 + rng.below(99), rand_cut(rng, 60)))
        elif c <= 2:
            ptsf, dtsf, pts, dts = rand_stamps33(rng)
            flips = ",".join("%d:%d" % (rng.choice([0, 1, 2, 3, 4, 5, 6, 7, 8, 8, 8, 9, 13, 14, 18, rng.below(30)]),
                                        1 + rng.below(255)) for _ in range(1 + rng.below(3)))
            cmds.append("pes sid=%d pad=%d ptsf=%d dtsf=%d pts=%d dts=%d n=%d pay=%d len=%s cut=%s flip=%s" % (
                rng.choice([224, 190, 191, 188, 255]), rng.below(3), ptsf, dtsf, pts, dts, rng.below(40),
                1 + rng.below(99), rng.choice(["auto", "0", "1", "2", "3", "7", "65535"]), rand_cut(rng, 60), flips))
        else:
            size = rng.below(30)
            h = rand_hex(rng, size)
            if size >= 9 and rng.chance(2, 3):
                h = "000001e0" + h[8:12] + "8%x" % rng.below(16) + "%02x" % (rng.below(4) << 6) + h[16:]
            cmds.append("rawchunk start=%d hex=%s" % (b(rng.chance(2, 3)), h))
    return Exe(cmds, "random corrupt P")


def rand_stamps27(rng, need_dts=False, min_dts=0):
    """(ptsf, dtsf, pts, dts) in 27 MHz units, pts >= dts."""
    c = rng.below(6)
    if c == 0:
        return 0, 0, 0, 0
    q = rng.choice([9000, 3003, POW33 - 1, POW33, POW33 + 5, 2 * POW33 - 1, (1 << 32) + 7, 90000 * 3600]) \
        if rng.chance(1, 2) else 9000 + rng.next() % (2 * POW33)
    pts = 300 * q + rng.below(300)
    if c <= 2 and not need_dts:
        return 1, 0, pts, 0
    d = rng.choice([0, 1, 150, 299, 300, 301, 300 * 3003, 300 * 5400000, 300 * 5400000 + 299]) \
        if rng.chance(2, 3) else rng.below(300 * 5400000)
    dts = max(pts - d, min_dts)
    if dts > pts:
        pts = dts
    return 1, 1, pts, dts


def gen_q(rng, n):
    cmds = ["mode Q sid=%d hdr=%d" % (rng.choice([224, 192, 189]), rng.choice([0, 0, 14, 19, 24, 40]))]
    for _ in range(n):
        ptsf, dtsf, pts, dts = rand_stamps27(rng)
        size = rng.choice([1, 2, 165, 184, 400]) if rng.chance(1, 2) else 1 + rng.below(300)
        cmds.append("au n=%d pay=%d ptsf=%d pts=%d dtsf=%d dts=%d rap=%d disc=%d" % (
            size, 1 + rng.below(1000), ptsf, pts, dtsf, dts, b(rng.chance(1, 3)), b(rng.chance(1, 6))))
    return Exe(cmds, "random Q")


def gen_e(rng, n, big=False, align=1):
    pcr = rng.chance(1, 2)
    pcrint = rng.choice([270000, 1080000, 2700000]) if pcr else 0
    cmds = ["mode E pid=%d sid=%d cc=%d pcrint=%d hdr=%d align=%d" % (
        rng.choice([68, 256, 8190, 32]), rng.choice([224, 192]), rng.below(16), pcrint,
        rng.choice([0, 0, 0, 19, 30]), align)]
    for _ in range(n):
        if rng.chance(1, 4):
            cmds.append("idle dt=%d" % rng.choice([1000, 300000, 3000000]))
        if pcr:
            ptsf, dtsf, pts, dts = rand_stamps27(rng, need_dts=True, min_dts=2700000)
        else:
            ptsf, dtsf, pts, dts = rand_stamps27(rng)
        size = rng.choice([1, 150, 157, 163, 165, 166, 169, 170, 174, 175, 176, 184, 349, 350, 360, 540]) \
            if rng.chance(2, 3) else 1 + rng.below(600)
        if big and rng.chance(1, 2):
            # around the point where PES_packet_length (payload + header - 6) no longer fits in 16 bits
            size = 65510 + rng.below(30)
        cmds.append("au n=%d pay=%d ptsf=%d pts=%d dtsf=%d dts=%d rap=%d disc=%d" % (
            size, 1 + rng.below(1000), ptsf, pts, dtsf, dts, b(rng.chance(1, 3)), b(rng.chance(1, 6))))
        if rng.chance(3, 4):
            cmds.append("drain")
    cmds += ["drain", "eos", "drain"]
    return Exe(cmds, "random E" if align else "random E (access units not aligned with PES)")


# ------------------------------------------------- spec -> code: scripts, compare
def beh_d_exe(beh, source):
    cmds = ["mode D"]
    for st in beh:
        p = st["p"]
        cmds.append(pkt_cmd(p["cc"], afc=p["afc"], af=p["af"], pusi=b(p["pusi"]), disc=b(p["disc"]), rai=b(p["rai"]),
                            pcrf=b(p["pcr"]), pcrb=12345678 + p["cc"], pcre=7, pay=p["pay"]))
    return Exe(cmds, source, pred=("D", beh))


def stamps_for(k, hk, i, unit):
    """Time stamps realising the header variant the model chose (unit = 300
    for 27 MHz values, 1 for 33-bit values)."""
    T = (1000000 + 3600 * i) * unit
    if k == "none":
        return 0, 0, 0, 0
    if k == "pts":
        return 1, 0, T + (7 if unit > 1 else 0), 0
    if hk == "both":
        return 1, 1, T + (7 if unit > 1 else 0), T - 3003 * unit + (11 if unit > 1 else 0)
    if unit > 1:
        return 1, 1, T + 150, T             # same value in 90 kHz units: PTS only in the header
    return 1, 0, T, 0


def beh_r_exe(beh, source):
    cmds = ["mode E pid=68 sid=224 cc=%d pcrint=0 hdr=0" % beh["cc0"]]
    for i, a in enumerate(beh["aus"]):
        if a["pad"]:
            cmds.append("idle dt=1000")
        ptsf, dtsf, pts, dts = stamps_for(a["k"], a["hk"], i + 1, 300)
        cmds.append("au n=%d pay=%d ptsf=%d pts=%d dtsf=%d dts=%d rap=%d disc=%d" % (
            a["n"], i + 1, ptsf, pts, dtsf, dts, b(a["rap"]), b(a["disc"])))
        cmds.append("drain")
    cmds += ["eos", "drain"]
    return Exe(cmds, source, pred=("R", beh))


def beh_p_exe(beh, source):
    cmds = ["mode P"]
    lossy = False
    for i, a in enumerate(beh["aus"]):
        fed = [f for f in beh["fed"] if f["au"] == i + 1]
        lose = 0
        for j, f in enumerate(fed):
            if f["lost"]:
                lose = j + 1
                lossy = True
        ptsf, dtsf, pts, dts = stamps_for(a["k"], a["hk"], i + 1, 1)
        cmds.append("pes sid=224 pad=%d ptsf=%d dtsf=%d pts=%d dts=%d n=%d pay=%d cut=%s lose=%d" % (
            a["hp"], ptsf, dtsf, pts, dts, a["n"], i + 1, ",".join(str(f["n"]) for f in fed), lose))
    return Exe(cmds, source, pred=("P", beh), validate=not lossy)


def lockstep(e):
    """Textual comparison of what TLC predicted with what the real code
    printed.  Returns None or the first difference."""
    kind, beh = e.pred
    if any(ln.startswith("san ") for ln in e.lines):
        return "sanitizer report"
    if kind == "D":
        groups = []
        for ln in e.lines:
            if ln.startswith("pkt "):
                groups.append((kv(ln), []))
            elif ln.startswith("out ") and groups:
                groups[-1][1].append(kv(ln))
        if len(groups) != len(beh):
            return "%d packets echoed, %d sent" % (len(groups), len(beh))
        for k, ((pk, outs), st) in enumerate(zip(groups, beh)):
            o = st["o"]
            want = [] if not o["out"] else [(pk["plen"], pk["pay"], b(o["disc"]), b(o["rap"]), b(o["start"]))]
            got = [(x.get("n"), x.get("pay"), int(x.get("disc", -1)), int(x.get("rap", -1)), int(x.get("start", -1)))
                   for x in outs]
            if got != want:
                return "packet %d: sink received %s (n, payload, disc, rap, start), predicted %s" % (k + 1, got, want)
        return None
    outs = [kv(ln) for ln in e.lines if ln.startswith("out ")]
    want_o = [(o["n"], b(o["start"]), b(o["ts"])) for o in beh["outs"]]
    got_o = [(int(x.get("n", -1)), int(x.get("start", -1)), int(x.get("dtsf", -1))) for x in outs]
    if kind == "R":
        tss = [kv(ln) for ln in e.lines if ln.startswith("ts ")]
        want = [(p["cc"], b(p["pusi"]), p["afc"], p["af"], b(p["disc"]), b(p["rai"]), p["plen"]) for p in beh["pkts"]]
        got = [tuple(int(x[f]) for f in ("cc", "pusi", "afc", "af", "disc", "rai", "plen")) for x in tss]
        if got != want:
            k = next((i for i in range(min(len(got), len(want))) if got[i] != want[i]), min(len(got), len(want)))
            return "emitted packet %d: %s, predicted %s (cc, pusi, afc, af, disc, rai, plen); %d emitted, %d predicted" % (
                k + 1, got[k] if k < len(got) else None, want[k] if k < len(want) else None, len(got), len(want))
        want_r = [b(o["rap"]) for o in beh["outs"]]
        got_r = [int(x.get("rap", -1)) for x in outs]
        if got_r != want_r:
            return "random access markers at the sink %s, predicted %s" % (got_r, want_r)
    if got_o != want_o:
        return "sink received %s (n, start, has dts), predicted %s" % (got_o, want_o)
    return None


# -------------------------------------------------------------- verdict keys
def has_san(e):
    return any(ev["e"] == "San" for ev in e.events)


def diagnose(exe, line):
    """(key, event): a stable description of the event of `exe` that the
    specification rejected.  Diagnosis only - the verdict is TLC's."""
    evs = exe.events
    ev = evs[line - 1] if 0 < line <= len(evs) else {"e": "?"}
    mode = evs[0].get("mode", "?")
    pipe = PIPES.get(mode, mode)
    if exe.cmds and exe.cmds[0].startswith("mode S"):
        pipe = "ts_split+ts_decaps"
    before = evs[:line - 1]
    # the segment this event belongs to
    rs = [i for i, x in enumerate(before) if x["e"] == "Reset"]
    if rs:
        before = before[rs[-1]:]
    if ev["e"] == "San":
        inp = next((x["e"] for x in reversed(before) if x["e"] in ("Pkt", "Raw", "Pes", "Au", "Ts")), "start")
        return "%s;%s;%s;after-%s" % (pipe, ev.get("kind", "san"), ev.get("where", "?"), inp.lower()), ev
    if ev["e"] == "NoBuf":
        return "%s;output-without-buffer" % pipe, ev
    if mode in ("D", "F"):
        # the packets that reach the decapsulator (mode F: PID enabled when they came)
        ins = []
        allin = []
        on = set()
        for x in before:
            if x["e"] == "AddPid":
                on.add(x["pid"])
            elif x["e"] == "DelPid":
                on.discard(x["pid"])
            elif x["e"] in ("Pkt", "Raw"):
                allin.append(x)
                if mode == "D" or x["e"] == "Raw" or x["pid"] in on:
                    ins.append(x)
        pk = allin[-1] if allin else None
        if ev["e"] in ("Pkt", "Raw", "End"):
            return "%s;payload-not-delivered" % pipe, ev
        if ev["e"] == "Out" and pk is not None:
            if ev["suf"] != 1:
                return "%s;output-octets-not-from-the-packet" % pipe, ev
            if pk["e"] == "Raw":
                return "%s;second-output-for-one-input" % pipe, ev
            if any(x["e"] == "Out" for x in before[len(before) - list(reversed(before)).index(pk):]):
                return "%s;second-output-for-one-packet" % pipe, ev
            if mode == "F" and (not ins or ins[-1] is not pk):
                return "%s;packet-of-another-pid-delivered" % pipe, ev
            # from here on the obligations are those of the decapsulator, whatever routes the packets to it
            pipe = "ts_decaps"
            if pk["afc"] not in (1, 3):
                return "%s;output-for-a-packet-without-payload" % pipe, ev
            if (ev["n"], ev["pay"]) != (pk["plen"], pk["pay"]):
                return "%s;payload-differs" % pipe, ev
            pays = [x for x in ins[:-1] if x["e"] == "Pkt" and x["afc"] in (1, 3)]
            if pays and (pays[-1]["cc"], pays[-1]["pay"], pays[-1]["plen"]) == (pk["cc"], pk["pay"], pk["plen"]):
                return "%s;duplicate-delivered" % pipe, ev
            if ev["start"] != pk["pusi"]:
                return "%s;unit-start-marker" % pipe, ev
            if ev["rap"] != (1 if pk["af"] >= 1 and pk["rai"] else 0):
                return "%s;random-access-marker" % pipe, ev
            if ev["disc"] == 0:
                # where did the counter jump?
                k = len(ins) - 2
                while k >= 0 and ins[k]["e"] == "Pkt" and ins[k]["afc"] == 2:
                    k -= 1
                nopay = ins[k + 1:-1]           # the packets without payload just before this one
                jumped = any(x["cc"] != ins[i + k].get("cc", x["cc"])
                             for i, x in enumerate(nopay) if i + k >= 0)
                return "%s;counter-gap-not-flagged%s" % (pipe, ";gap-seen-on-packet-without-payload" if jumped else ""), ev
        return "%s;unexpected-%s" % (pipe, ev["e"].lower()), ev
    if ev["e"] == "Ts":
        bad = [f for f, ok in (("size", ev["size"] == 188), ("sync", ev["sync"] == 71),
                               ("pid", ev["pid"] == evs[0].get("pid")), ("tei", ev["tei"] == 0)) if not ok]
        return "%s;emitted-packet;%s" % (pipe, bad[0] if bad else "continuity-counter-or-adaptation"), ev
    if ev["e"] == "POut":
        units = [x for x in evs if x["e"] in ("Au", "Pes")]
        k = sum(1 for x in before if x["e"] == "POut" and x["start"] == 1)
        if ev["start"] == 1 and k < len(units):
            u = units[k]
            if ev["b"] != u["b"][:len(ev["b"])]:
                return "%s;payload-differs" % pipe, ev
            if "rap" in u and ev["rap"] != u["rap"]:
                return "%s;random-access-marker" % pipe, ev
            if u.get("disc") == 1 and ev["disc"] != 1:
                return "%s;discontinuity-marker" % pipe, ev
            prev_start = [i for i, x in enumerate(before) if x["e"] == "POut" and x["start"] == 1]
            if prev_start and k >= 1:
                got = sum((x["b"] for x in before[prev_start[-1]:] if x["e"] == "POut"), [])
                if got != units[k - 1]["b"]:
                    return "%s;previous-unit-incomplete" % pipe, ev
            return "%s;time-stamps" % pipe, ev
        return "%s;payload-differs-or-unit-boundary" % pipe, ev
    if ev["e"] == "End":
        return "%s;unit-incomplete-at-end" % pipe, ev
    return "%s;unexpected-%s" % (pipe, ev["e"].lower()), ev


def category(e):
    src = e.source
    if "corrupt" in src:
        return "corrupt"
    m = e.cmds[0].split()[1] if e.cmds else "?"
    return {"D": "D", "P": "P", "Q": "QE", "E": "QE", "X": "corrupt", "F": "FS", "S": "FS"}.get(m, "D")


def validate_pool(ctx, exes, tag, max_reject=2):
    """Validate recorded executions with TsPackets_Trace, one TLC run per
    category side by side (a category in which executions are rejected costs
    one more run per rejection; after max_reject rejections the rest of that
    category is left unjudged - the check fails anyway).  Returns the suspects
    [(exe, rejected line, invariants)]."""
    pools = {}
    for e in exes:
        if e.validate:
            pools.setdefault(category(e), []).append(e)
    # the largest category in two halves
    big = max(pools, key=lambda k: len(pools[k])) if pools else None
    if big is not None and len(pools[big]) > 40:
        part = pools[big]
        pools[big] = part[:len(part) // 2]
        pools[big + "'"] = part[len(part) // 2:]
    suspects = []
    err = []

    def one(k, part):
        try:
            with TLC_SLOTS:
                rej = ctx.validate_histories(TRACE[0], TRACE[1], [e.events for e in part],
                                             tag="%s_%s" % (tag, re.sub(r"\W", "x", k)), max_reject=max_reject)
            for idx, line, inv in rej:
                suspects.append((part[idx], line, inv))
        except Exception as ex:
            err.append(ex)
    ths = [threading.Thread(target=one, args=(k, part)) for k, part in sorted(pools.items())]
    for t in ths:
        t.start()
    for t in ths:
        t.join()
    if err:
        raise err[0] if isinstance(err[0], vlib.ToolError) else vlib.ToolError("trace validation driver: %r" % err[0])
    return suspects


def shrink(ctx, binp, e, key):
    """Shorter script with the same verdict key (drop commands from the front,
    then from the back).  Only used to make the report readable."""
    best = e
    head = e.cmds[0]
    body = e.cmds[1:]
    budget = [0 if len(body) <= 5 else 5 if ctx.quick else 14]   # candidate evaluations (harness + TLC run each)

    def same(cand):
        if budget[0] <= 0:
            return None
        budget[0] -= 1
        t = Exe([head] + cand, e.source)
        execute(ctx, binp, [t], jobs=1)
        before = ctx.traces
        r = ctx.validate_histories(TRACE[0], TRACE[1], [t.events], tag="shr")
        ctx.traces = before
        return t if r and diagnose(t, r[0][1])[0] == key else None
    # the commands after the rejected one are not needed
    changed = True
    while changed and len(body) > 1 and budget[0] > 0:
        changed = False
        for cut in (len(body) // 2, len(body) // 4, 1):
            if cut < 1 or cut >= len(body):
                continue
            for cand in (body[:-cut], body[cut:]):
                t = same(cand)
                if t is not None:
                    body, best, changed = cand, t, True
                    break
            if changed:
                break
    return best


def report(ctx, binp, e, line, inv):
    key, ev = diagnose(e, line)
    # reproduce: same script, fresh process, fresh TLC run
    again = Exe(e.cmds, e.source)
    execute(ctx, binp, [again], jobs=1)
    r2 = ctx.validate_histories(TRACE[0], TRACE[1], [again.events], tag="re")
    if not r2:
        raise vlib.ToolError("rejected execution did not reproduce (flaky harness?): %s" % e.cmds[:20])
    small = shrink(ctx, binp, again, key)
    rs = ctx.validate_histories(TRACE[0], TRACE[1], [small.events], tag="sm")
    if not rs:
        small, rs = again, r2
    sline = rs[0][1]
    skey, sev = diagnose(small, sline)
    what = "%s: event %d %s of the real code is rejected by TsPackets_Trace%s (script: %s)" % (
        skey, sline, json.dumps(sev)[:300], (" invariants " + ",".join(inv)) if inv else "",
        "; ".join(small.cmds[:14]))
    ctx.violation(key, what, {"script": small.cmds, "source": e.source, "events": small.events[:60],
                              "rejected_line": sline, "original_script_length": len(e.cmds)})


def tamper_check(ctx, exes, suspects):
    """Vacuity guard of the trace module: one field of executions it accepted
    is corrupted; TLC must reject every one of them."""
    bad = set(id(e) for e, _, _ in suspects)
    picked = []

    def copy(e, upto):
        return [dict(ev) for ev in e.events[:upto]] + [{"e": "End"}]
    for e in exes:
        if not e.validate or id(e) in bad or has_san(e):
            continue
        evs = e.events
        mode = evs[0].get("mode")
        kinds = [k for k, _ in picked]
        if mode == "D" and "payload" not in kinds and e.source == "random D" and len(evs) > 3 \
                and evs[1]["e"] == "Pkt" and evs[1]["afc"] in (1, 3) and evs[2]["e"] == "Out":
            t = copy(e, 3)
            t[2]["pay"] += 1                      # other payload octets at the sink of ts_decaps
            picked.append(("payload", t))
        elif mode == "E" and "octet" not in kinds:
            k = next((i for i, ev in enumerate(evs) if ev["e"] == "POut" and ev["b"]), None)
            j = next((i for i, ev in enumerate(evs) if ev["e"] == "Ts" and ev["afc"] in (1, 3)), None)
            if k is not None and j is not None:
                t = copy(e, k + 1)
                t[k]["b"] = [t[k]["b"][0] ^ 1] + t[k]["b"][1:]      # one bit of the recovered access unit
                picked.append(("octet", t))
                t = copy(e, j + 1)
                t[j]["cc"] = (t[j]["cc"] + 1) % 16                  # continuity counter of an emitted packet
                picked.append(("counter", t))
        elif mode in ("P", "Q") and "stamp" not in kinds:
            k = next((i for i, ev in enumerate(evs) if ev["e"] == "POut" and ev["dtsf"] == 1 and ev["start"] == 1), None)
            if k is not None:
                t = copy(e, k + 1)
                t[k]["dts"] = t[k]["dts"][:2] + [t[k]["dts"][2] ^ 1, t[k]["dts"][3]]   # one tick of 90 kHz
                picked.append(("stamp", t))
        if len(picked) >= 4:
            break
    if len(picked) < 4:
        raise vlib.ToolError("vacuity: no accepted execution to tamper with (%s)" % [k for k, _ in picked])
    before = ctx.traces
    res = {}
    err = []

    def one(i, t):
        try:
            with TLC_SLOTS:
                res[i] = ctx.validate_histories(TRACE[0], TRACE[1], [t], tag="tamper%d" % i, max_reject=1)
        except Exception as ex:
            err.append(ex)
    ths = [threading.Thread(target=one, args=(i, t)) for i, (_, t) in enumerate(picked)]
    for t in ths:
        t.start()
    for t in ths:
        t.join()
    ctx.traces = before
    if err:
        raise err[0] if isinstance(err[0], vlib.ToolError) else vlib.ToolError("tamper check driver: %r" % err[0])
    missed = [picked[i][0] for i in range(len(picked)) if not res.get(i)]
    if missed:
        raise vlib.ToolError("vacuity: the trace specification accepted a corrupted trace: %s" % missed)
    ctx.extra["corrupted_traces_rejected"] = [k for k, _ in picked]


def judge(ctx, binp, suspects):
    # one report per key: the shortest execution showing it
    best = {}
    for e, line, inv in suspects:
        key, _ = diagnose(e, line)
        if key not in best or len(e.cmds) < len(best[key][0].cmds):
            best[key] = (e, line, inv)
    for key in sorted(best):
        report(ctx, binp, *best[key])


def build(ctx):
    """The harness and the repository sources it needs, ASan + UBSan, objects
    compiled side by side."""
    objs = ctx.cc_objs(SRCS, flags=FLAGS, san="asan", tag="ts")
    return ctx.cc("replay_ts_asan", objs, san="asan")


# -------------------------------------------------------------------- models
def start_models(ctx, jobs):
    """Start the TLC runs of `jobs` (threads; TLC_SLOTS at a time)."""
    res = {}
    err = []

    def one(j):
        try:
            with TLC_SLOTS:
                res[j["cfg"]] = ctx.tlc("TsPackets", "MCTsPackets_%s.cfg" % j["cfg"], workers=j.get("workers", 2),
                                        coverage=bool(j.get("coverage")), heap=j.get("heap", "4g"),
                                        timeout=j.get("timeout", 600), count=False, name=j["cfg"],
                                        simulate=j.get("simulate"), depth=j.get("depth"))
        except Exception as ex:
            err.append(ex)
    ths = [threading.Thread(target=one, args=(j,)) for j in jobs]
    for t in ths:
        t.start()
    return ths, res, err


def finish_models(handle):
    ths, res, err = handle
    for t in ths:
        t.join()
    if err:
        raise err[0] if isinstance(err[0], vlib.ToolError) else vlib.ToolError("TLC driver: %r" % err[0])
    return res


def packets_of_counterexample(res):
    """The packets of the last state of a TLC counterexample (variable hist)."""
    v = res.last_value("hist") or ""
    out = []
    for m in re.finditer(r"p \|-> \[([^\]]*)\]", v):
        d = {}
        for k, val in re.findall(r"(\w+) \|-> (-?\w+)", m.group(1)):
            d[k] = val == "TRUE" if val in ("TRUE", "FALSE") else int(val)
        if "cc" in d:
            out.append({"p": d, "o": None})
    return out


DCOV = ["DOut", "DOutDisc", "DOutGap", "DDropDup", "DNoPay", "DNoPayGap"]
RCOV = ["Plan", "StartR", "RFeedStart", "RFeedCont", "RFeedNoPay", "DoneR"]
PCOV = ["Plan", "StartP", "PCutStart", "PCutWait", "PCutHdr", "PCutCont", "PLose"]
NEG = {"neg_tree": "CcRule", "neg_nodup": "PayloadExact", "neg_nogap": "CcRule", "neg_start": "Markers",
       "neg_pusi": "PacketizeOK", "neg_ccpad": "CcRuleEnc", "neg_hdr": "RoundTrip"}


def run(ctx):
    quick = ctx.quick
    side = {"err": [], "exes": [], "suspects": [], "bin": None}
    built = threading.Event()

    def code_to_spec():
        """3. code -> spec (runs while TLC works on the models)."""
        try:
            try:
                side["bin"] = build(ctx)
            finally:
                built.set()
            rng = vlib.Rng(ctx.seed)
            k = 1 if quick else 30
            exes = []
            exes += [gen_d(rng, 30 + rng.below(60)) for _ in range(90 * k)]
            exes += [gen_corrupt_ts(rng, 40, "D") for _ in range(40 * k)]
            exes += [gen_corrupt_ts(rng, 40, "X") for _ in range(15 * k)]
            exes += [gen_fs(rng, 40 + rng.below(40), False) for _ in range(20 * k)]
            exes += [gen_fs(rng, 40 + rng.below(40), True) for _ in range(20 * k)]
            exes += [gen_p(rng, 6 + rng.below(10)) for _ in range(50 * k)]
            exes += [gen_corrupt_p(rng, 30) for _ in range(30 * k)]
            exes += [gen_q(rng, 6 + rng.below(10)) for _ in range(30 * k)]
            exes += [gen_e(rng, 4 + rng.below(8)) for _ in range(50 * k)]
            exes += [gen_e(rng, 2 + rng.below(3), big=True) for _ in range(10 if quick else 40)]
            # access units not aligned with the PES packets (the tail of one travels with the next)
            exes += [gen_e(rng, 3 + rng.below(9), align=0) for _ in range(30 * k)]
            execute(ctx, side["bin"], exes, jobs=6)
            side["exes"] = exes
            side["suspects"] = validate_pool(ctx, exes, "cs")
            tamper_check(ctx, exes, side["suspects"])
        except Exception as ex:
            side["err"].append(ex)
    cs = threading.Thread(target=code_to_spec)
    cs.start()

    # ---- 1. model checking.  The runs whose output feeds the replay on the
    # real code (emitted behaviours, counterexamples of the broken variants) are
    # started first; the exhaustive ones go on meanwhile.  The coverage guard
    # runs on the smaller configuration of each mode, the larger ones run
    # without TLC's coverage bookkeeping.
    negs = ["neg_tree", "neg_nodup", "neg_pusi", "neg_hdr"] if quick else list(NEG)
    emit = [dict(cfg="d_emit", workers=1), dict(cfg="r_emit", workers=1), dict(cfg="p_emit", workers=1),
            dict(cfg="d_sim", workers=1, simulate=(150 if quick else 6000), depth=14)]
    first = start_models(ctx, emit + [dict(cfg=c, workers=1) for c in negs])
    pos = [dict(cfg="d3", coverage=DCOV), dict(cfg="d4", workers=4),
           dict(cfg="r1", coverage=RCOV), dict(cfg="r2"),
           dict(cfg="p1", coverage=PCOV), dict(cfg="p2")]
    if not quick:
        pos += [dict(cfg="d5", workers=4, timeout=1500),
                dict(cfg="d6", workers=8, timeout=1700, heap="8g"),
                dict(cfg="r2t", workers=6, timeout=1500, heap="8g"),
                dict(cfg="p1t", workers=4, timeout=1500, coverage=PCOV)]
    second = start_models(ctx, pos)
    try:
        res = finish_models(first)
        for j in emit:
            ctx.model_must_hold(res[j["cfg"]], "TsPackets/" + j["cfg"])
        exes = []
        for c in negs:
            inv = NEG[c]
            r = res[c]
            if inv not in r.violated:
                raise vlib.ToolError("vacuity: negative configuration %s: expected %s violated, got %s"
                                     % (c, inv, r.violated))
            ctx.extra.setdefault("negative_configurations", {})[c] = r.violated
            # counterexamples of the decapsulator variants are directed tests for the code
            if c in ("neg_tree", "neg_nodup", "neg_nogap", "neg_start"):
                pk = packets_of_counterexample(r)
                if not pk:
                    raise vlib.ToolError("cannot read the counterexample of %s" % c)
                e = beh_d_exe(pk, "counterexample of model variant " + c)
                e.pred = None
                exes.append(e)

        # ---- 2. spec -> code
        seen = set()
        nbeh = {"D": 0, "R": 0, "P": 0}
        for cfgname, src in (("d_emit", "TLC BFS"), ("d_sim", "TLC simulation"), ("r_emit", "TLC BFS"),
                             ("p_emit", "TLC BFS")):
            for beh in res[cfgname].beh():
                k = json.dumps(beh, sort_keys=True)
                if k in seen:
                    continue
                seen.add(k)
                if isinstance(beh, list):
                    exes.append(beh_d_exe(beh, src + " mode D"))
                    nbeh["D"] += 1
                elif beh["mode"] == "R":
                    exes.append(beh_r_exe(beh, src + " mode R"))
                    nbeh["R"] += 1
                else:
                    exes.append(beh_p_exe(beh, src + " mode P"))
                    nbeh["P"] += 1
        if min(nbeh.values()) == 0:
            raise vlib.ToolError("TLC emitted no behaviour for some mode: %s" % nbeh)
        built.wait()
        if side["bin"] is None:
            raise vlib.ToolError("harness not built")
        execute(ctx, side["bin"], exes, jobs=6)
        suspects = validate_pool(ctx, exes, "sc")
        diffs = []
        for e in exes:
            if e.pred is not None:
                d = lockstep(e)
                if d:
                    diffs.append({"source": e.source, "script": e.cmds[:12], "difference": d})
        res2 = finish_models(second)
    except vlib.ToolError:
        if not side["err"]:
            cs.join()
        if side["err"] and isinstance(side["err"][0], vlib.ToolError):
            raise side["err"][0]
        raise
    finally:
        cs.join()
    if side["err"]:
        ex = side["err"][0]
        raise ex if isinstance(ex, vlib.ToolError) else vlib.ToolError("code->spec driver: %r" % ex)
    for j in pos:
        r = res2[j["cfg"]]
        ctx.model_must_hold(r, "TsPackets/" + j["cfg"])
        if j.get("coverage"):
            ctx.require_coverage(r, j["coverage"])
        ctx.states += r.distinct
        ctx.transitions += r.generated
    ctx.exhaustive = True
    suspects = side["suspects"] + suspects
    allx = side["exes"] + exes
    ctx.evaluations += len(allx)
    ctx.extra["model_behaviours_replayed"] = nbeh
    ctx.extra["behaviours_differing_from_prediction"] = len(diffs)
    if diffs:
        ctx.extra["first_differences"] = diffs[:3]
    ctx.extra["executions_on_real_code"] = len(allx)
    ctx.extra["events_validated"] = sum(len(e.events) for e in allx if e.validate)
    ctx.extra["packets_fed_or_emitted"] = sum(1 for e in allx for ev in e.events if ev["e"] in ("Pkt", "Ts", "Raw"))
    ctx.extra["executions_ended_by_sanitizer"] = sum(1 for e in allx if has_san(e))
    for e in exes:
        if e.pred is not None and e.pred[0] == "R" and len(e.events) > 6:
            ctx.sample({"source": e.source, "script": e.cmds, "predicted": e.pred[1],
                        "events": [{k: (v if k != "b" else len(v)) for k, v in ev.items()} for ev in e.events[:10]]},
                       limit=1)
            break
    for e in exes:
        if e.pred is not None and e.pred[0] == "D":
            ctx.sample({"source": e.source, "script": e.cmds, "predicted": e.pred[1], "events": e.events[:8]}, limit=2)
            break
    for e in side["exes"]:
        if e.source == "random D":
            ctx.sample({"source": "random seed=%d" % ctx.seed, "script": e.cmds[:6], "events": e.events[:8]}, limit=3)
            break
    judge(ctx, side["bin"], suspects)
    # a difference with the prediction that the trace specification accepts is
    # not a violation; it is recorded
    if diffs and not ctx.violations and not ctx.known_hits:
        ctx.extra["model_drift"] = True
        ctx.notes.append("real code differs from the detailed model's prediction without violating the abstract specification")
    ctx.assumptions += [
        "well-formed packet = 188 octets, sync 0x47, transport_error_indicator 0, not scrambled, adaptation_field_control 01/10/11 with adaptation_field_length 0..182 (with payload) or 183 (without), PCR only when the field has room; everything else is 'corrupt' and only memory safety and 'output octets come from the input' are required, until the decapsulator has delivered a payload again",
        "a duplicate is the packet immediately following its original with the same counter and identical payload; a third copy, and a packet with the same counter but another payload (exactly 16 packets missing: no gap is visible in the counters) may be delivered or dropped",
        "access units carry a PTS, or a PTS and a DTS <= PTS, or no time stamp; the round trip is stated as dts_orig = 300*((dts div 300) mod 2^33) and dts_pts_delay = 300*((pts' - dts') mod 2^33) when that is <= 60 s (pts' = (pts div 300) mod 2^33); ts_encaps is driven with data-aligned PES (uref_ts_flow pes_alignment) and also without it (the tail of an access unit then travels with the next PES; judged on the stream), pes_min_duration 0, following the UPROBE_TS_ENCAPS_STATUS dates as upipe_ts_mux does",
        "upipe_ts_mux_command_str / upipe_ts_mux_event_str (debug strings of upipe_ts_mux.c, which is not built) are stubbed",
    ]
    ctx.trusted += ["TLC", "harness/replay_ts.c (command interpreter, reference TS / PES serializer and parser written from ISO/IEC 13818-1)",
                    "harness/shim/bitstream/mpeg/{ts,pes}.h (clean-room biTStream shim)",
                    "gcc AddressSanitizer / UndefinedBehaviorSanitizer, exactly-sized buffers of ubuf_block_mem + umem_alloc"]


def replay(ctx, rp):
    """bin/check C15 --replay file: re-run the stored script."""
    binp = build(ctx)
    e = Exe(rp["replay"]["script"], "replay")
    execute(ctx, binp, [e], jobs=1)
    r = ctx.validate_histories(TRACE[0], TRACE[1], [e.events], tag="replay")
    if r:
        print("VIOLATION property=C15 replay reproduced: event %d %s" % (r[0][1], json.dumps(e.events[r[0][1] - 1])[:400]))
        return 1
    print("OK property=C15 replay accepted")
    return 0
