"""C02 - shared buffer memory is copy-on-write: handles are isolated.

Block part (this file); the picture / sound part lives in checks/c02pic.py
(run_part) and is run afterwards when that module is present.

1. TLC checks spec/BlockBuf.tla exhaustively for small bounds: handles are
   lists of windows on shared memory areas; dup / splice / split / insert /
   append / delete / truncate / resize share instead of copying; a write
   mapping is granted or refused by the owner rule.  Action properties
   Isolation (a call through one handle changes no other handle's content),
   WriteOnlySingle (granted => single owner), StructuralOpsDontWrite /
   SharedNeverWritten (cutting, inserting, resizing, re-segmenting never
   writes memory) under the strict rule of ubuf_block_mem (granted iff the
   area has one window) and under the weakest rule that keeps the statement.
   The negative configuration (grant whatever the owner count) must be rejected.
2. spec -> code: behaviours emitted by TLC (two sharing calls, then a poke at
   every offset; random walks of sharing calls and pokes) are executed on the
   real ubuf_block_mem through harness/replay_block.c (write mapping of one
   octet, store, unmap) with the grant / refusal and the final content of
   EVERY handle predicted by the specification.
3. code -> spec: seeded random scripts over 12 handles (sharing calls inside
   the blocks, pokes, write mappings, audits of every handle after about one
   call in six) on 7 manager configurations, validated by
   spec/BlockBuf_Trace.tla with the same properties evaluated in every state.
"""
import vlib
from checks import blockcommon as bc

try:
    from checks import c02pic
except ImportError:
    c02pic = None

LEVEL = "model_checking"
MUT = ["CAlloc", "CDup", "CSplice", "CSplit", "CCopy", "CMerge", "CAppend", "CInsert", "CDelete",
       "CTruncate", "CResize", "CPrepend", "CWmap", "CPoke", "CFree"]


def plan(ctx):
    q = ctx.quick
    B = "MCBlockBuf"
    jobs = []
    jobs.append(dict(module=B, cfg="MCBlockBuf_emit_c02", kind="emit", pre=2, nh=3, workers=1))
    # dup (the sibling), append (a later segment shared with the sibling), any cutting / growing call,
    # final content of every handle
    jobs.append(dict(module=B, cfg="MCBlockBuf_emit_sw2", kind="emit", pre=2, nh=4, workers=1))
    jobs.append(dict(module=B, cfg="MCBlockBuf_sim_c02", kind="sim", pre=2, nh=4, simulate=600 if q else 20000, depth=14))
    jobs.append(dict(module=B, cfg="MCBlockBuf_neg_nosingle", kind="neg"))
    jobs.append(dict(module=B, cfg="MCBlockBuf_c02_q", kind="pos", workers=2))
    jobs.append(dict(module=B, cfg="MCBlockBuf_c02_s", kind="pos", workers=2))
    jobs.append(dict(module=B, cfg="MCBlockBuf_cov", kind="cov", cov=True, need=MUT))
    if not q:
        jobs.append(dict(module=B, cfg="MCBlockBuf_c02_t", kind="pos", workers=4, timeout=1700, heap="8g"))
        jobs.append(dict(module=B, cfg="MCBlockBuf_emit_c02t", kind="emit", pre=2, nh=3, workers=2, timeout=1500))
    return dict(jobs=jobs, mode="c02", nh=12, maxlen=24,
                random_scripts=280 if q else 10000, script_len=45 if q else 80,
                judge_budget_s=40 if q else 600, parallel=3, validate_jobs=3 if q else 4, also_indirect=6)


def run(ctx):
    bc.run_check(ctx, plan(ctx))
    ctx.assumptions += [
        "block part: the real-code scripts use the calls C02 quantifies over (dup, splice, split, insert, append, "
        "delete, truncate, resize, write mapping, free, plus alloc / copy / merge to create blocks) with arguments inside "
        "the blocks; ubuf_block_prepend is left to C03",
        "a refusal of a write mapping is accepted whenever the area has more than one window (also two windows of one "
        "handle, which is what ubuf_block_mem counts); a grant only if no other handle has a window on the area and no "
        "other window covers the octet",
        "one call at a time (no concurrent use of a block), allocation never fails",
    ]
    ctx.trusted += ["TLC", "harness/replay_block.c", "gcc AddressSanitizer / UndefinedBehaviorSanitizer"]
    if c02pic is not None:
        c02pic.run_part(ctx)


def replay(ctx, rp):
    if c02pic is not None and rp.get("replay", {}).get("part") == "pic" and hasattr(c02pic, "replay"):
        return c02pic.replay(ctx, rp)
    return bc.replay_file(ctx, rp, "C02")
