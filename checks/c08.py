"""C08 - event-driven waiting never loses a wake-up; the dealer grants exclusively.

uqueue part
 1. TLC checks spec/Uqueue.tla (every descriptor read/write and counter
    operation an action, FIFO atomic per C07) for SPSC / SPMC / MPSC shapes.
 2. For every shape the real uqueue (real eventfds, mock event loops) is
    explored at the same granularity (DFS, preemption-bounded) and at the
    granularity of every yield point; traces are validated by the abstract
    spec/Uqueue_Trace.tla (Occupancy, NoLostWakeup, NoInvention).
 3. Counterexample schedules of TLC (shapes where the MODEL violates
    NoLostWakeup, and the negative variant) are replayed on the real code in
    lock-step: only if the real code follows into the bad state is it a
    violation (DESIGN.md 2.2).
udeal part: see run_udeal().
"""
import json, re
import vlib

LEVEL = "model_checking"

# cfg, L, npush, ncons, drain, expected to hold in the model
MODELS = [
    ("spsc_l1", 1, "3", 1, 0), ("spsc_l2", 2, "3", 1, 0), ("spsc_l1_drain", 1, "3", 1, 1),
    ("spmc_l1", 1, "3", 2, 0), ("spmc_l2_drain", 2, "3", 2, 1),
    ("mpsc_l1", 1, "2,2", 1, 0), ("mpsc_l2", 2, "2,2", 1, 0),
]
# real-code exploration: (L, npush, ncons, drain, gran, pb quick, pb thorough)
DFS = [
    (1, "3", 1, 0, "macro", 3, 5), (2, "3", 1, 0, "macro", 3, 5), (1, "3", 1, 1, "macro", 3, 5),
    (2, "4", 1, 1, "macro", 2, 4),
    (1, "3", 1, 0, "fine", 2, 3), (2, "3", 1, 1, "fine", 1, 2),
    (1, "2,2", 1, 0, "macro", 2, 3), (2, "2,2", 1, 0, "macro", 2, 3), (1, "2,1", 1, 1, "macro", 2, 3),
    (1, "3", 2, 0, "macro", 2, 3), (2, "3", 2, 1, "macro", 2, 3),
    (1, "2,2", 1, 0, "fine", 1, 2),
]


def shape(npush, ncons):
    return ("m" if "," in npush else "s") + "p" + ("m" if ncons > 1 else "s") + "c"


def parse(text):
    hs = []
    for line in text.splitlines():
        if line.startswith("{"):
            e = json.loads(line)
            if e["e"] == "Reset":
                hs.append([e])
            else:
                hs[-1].append(e)
    return hs


def harness(ctx, binp, L, npush, ncons, drain, gran, args, timeout=1500):
    r = ctx.run([binp, str(L), npush, str(ncons), str(drain), gran] + [str(a) for a in args], timeout=timeout)
    if r.returncode == 4:
        return None, {"diverged": True}
    if r.returncode != 0:
        raise vlib.ToolError("sched_uqueue rc=%d %s" % (r.returncode, r.stderr[-1500:]))
    st = {}
    for l in r.stderr.splitlines():
        if l.startswith("{"):
            st.update(json.loads(l))
    return parse(r.stdout), st


def signature(h, line):
    """What failed, from the rejected event and simple counts (for the key)."""
    ev = h[line - 1] if 0 < line <= len(h) else {}
    if ev.get("e") == "Quiescent":
        ok = sum(1 for e in h[:line] if e["e"] == "PushRet" and e["ok"])
        got = sum(1 for e in h[:line] if e["e"] == "PopRet" and e["v"])
        return "consumer-asleep-with-element" if ok > got else "producer-asleep-with-free-slot"
    return {"PushRet": "occupancy", "PopRet": "invention-or-duplicate"}.get(ev.get("e"), ev.get("e", "?"))


def protocol_left(ctx, hists, tag="uqdet"):
    """Which of the executions (macro granularity: Step events) leave the detailed model spec/Uqueue.tla, i.e. the
    wake-up protocol as transcribed from uqueue.h?  One TLC run of UqueueDet_Trace per queue configuration.
    Returns {index in hists: description of the first step outside the protocol}; executions without a step
    record (fine granularity) are not classified (absent from the result, listed in the second value)."""
    import os
    groups, unclassified = {}, []
    for k, h in enumerate(hists):
        r0 = h[0]
        steps = [e for e in h if e["e"] == "Step"]
        if r0.get("gran") != "macro" or not steps:
            unclassified.append(k)
            continue
        cfgk = (r0["L"], tuple(r0["npush"]), r0["ncons"], r0["drain"])
        groups.setdefault(cfgk, []).append((k, r0, steps))
    out = {}
    for gi, (cfgk, items) in enumerate(sorted(groups.items())):
        path = os.path.join(ctx.build, "%s_%d.ndjson" % (tag, gi))
        lines = []
        for k, r0, steps in items:
            lines.append({"e": "Reset", "hid": k, "L": r0["L"], "npush": r0["npush"], "ncons": r0["ncons"], "drain": r0["drain"]})
            lines += steps
        vlib.write_ndjson(path, lines)
        res = ctx.tlc("UqueueDet_Trace", "UqueueDet_Trace.cfg", workers=1, env={"TRACE": path}, count=False, timeout=600)
        if "DET_CONSUMED" not in res.out:
            raise vlib.ToolError("UqueueDet_Trace did not consume its trace\n" + res.out[-1500:])
        m = re.search(r'"DET_LEFT",\s*\{(.*?)\}\s*>>', res.out, re.S)
        if not m:
            raise vlib.ToolError("UqueueDet_Trace: no DET_LEFT report\n" + res.out[-1500:])
        steps_of = {k: st for k, _, st in items}
        for a_, b_ in re.findall(r"<<(-?\d+), (\d+)>>", m.group(1)):
            k, d = int(a_), int(b_)
            st = steps_of[k][d - 1] if 0 < d <= len(steps_of[k]) else {}
            out[k] = "step %d (thread %s: %s)" % (d, st.get("t"), st.get("k"))
    return out, unclassified


def run_uqueue(ctx):
    binp = ctx.cc("sched_uqueue", ["sched_uqueue.c", "vsched.c"])
    pool = []
    model_verdicts = {}
    for cfg, L, npush, ncons, drain in MODELS:
        res = ctx.tlc("MCUqueue", "MCUqueue_%s.cfg" % cfg, workers=1)
        model_verdicts[cfg] = res.violated
        if res.violated:
            # the MODEL loses a wake-up: replay its schedule on the real code
            sched = "".join(str(x - 1) for x in (res.last_seq("sched") or []))
            hs, st = harness(ctx, binp, L, npush, ncons, drain, "macro", ["replay", sched])
            follows = hs is not None and st.get("replay_len") == len(sched)
            ctx.extra.setdefault("model_counterexamples", []).append(
                {"cfg": cfg, "violated": res.violated, "sched": sched, "real_code_follows_schedule": follows})
            if hs:
                pool += [(h, "TLC counterexample of " + cfg) for h in hs]
    ctx.extra["model_verdicts"] = model_verdicts
    # liveness under fairness on the smallest configuration
    res = ctx.tlc("MCUqueue", "MCUqueue_live_spsc_l1.cfg", workers=1)
    ctx.model_must_hold(res, "Uqueue/live_spsc_l1")
    # negative variant
    res = ctx.tlc("MCUqueue", "MCUqueue_neg_nodoublecheck.cfg", workers=1, count=False)
    if not res.violated:
        raise vlib.ToolError("vacuity: negative model variant not rejected")
    sched = "".join(str(x - 1) for x in (res.last_seq("sched") or []))
    hs, st = harness(ctx, binp, 1, "2", 1, 0, "macro", ["replay", sched])
    ctx.extra.setdefault("directed_schedules", []).append({"cfg": "neg_nodoublecheck", "sched": sched, "diverged": hs is None})
    if hs:
        pool += [(h, "counterexample schedule of neg_nodoublecheck") for h in hs]
    # exploration of the real code
    runs = 0
    complete = True
    for L, npush, ncons, drain, gran, pbq, pbt in DFS:
        pb = pbq if ctx.quick else pbt
        hs, st = harness(ctx, binp, L, npush, ncons, drain, gran, ["dfs", pb, 40000 if ctx.quick else 2000000])
        runs += st.get("runs", 0)
        complete = complete and st.get("complete", False)
        ctx.extra.setdefault("dfs", []).append({"L": L, "npush": npush, "ncons": ncons, "drain": drain, "granularity": gran,
                                                "preemption_bound": pb, "schedules": st.get("runs"),
                                                "distinct_traces": st.get("unique"), "complete_within_bound": st.get("complete")})
        pool += [(h, "dfs %s pb=%d" % (gran, pb)) for h in hs]
        if hs and gran == "macro":
            ctx.sample({"uqueue": {"L": L, "npush": npush, "ncons": ncons}, "trace": hs[len(hs) // 2][:16]}, limit=2)
        hs, st = harness(ctx, binp, L, npush, ncons, drain, gran, ["random", 1500 if ctx.quick else 100000, ctx.seed, 5])
        runs += st.get("runs", 0)
        pool += [(h, "random %s" % gran) for h in hs]
    ctx.evaluations += runs
    ctx.extra["uqueue_schedules_run_on_real_code"] = runs
    ctx.extra["uqueue_dfs_complete_within_preemption_bound"] = complete
    hists = [h for h, _ in pool]
    rej = ctx.validate_histories_1pass("Uqueue_Trace", "Uqueue_Trace.cfg", hists, tag="uq")
    ctx.extra["uqueue_traces_rejected"] = len(rej)
    seen_keys = set()
    lw = [idx for idx, line, inv in rej
          if signature(pool[idx][0], line) in ("producer-asleep-with-free-slot", "consumer-asleep-with-element")]
    lp, uncl = protocol_left(ctx, [pool[idx][0] for idx in lw])
    left_protocol = {lw[k]: v for k, v in lp.items()}
    ctx.extra["uqueue_lost_wakeups_checked_against_the_detailed_model"] = len(lw) - len(uncl)
    ctx.extra["uqueue_lost_wakeups_outside_the_recorded_protocol"] = len(left_protocol)
    for idx, line, inv in rej:
        h, source = pool[idx]
        r0 = h[0]
        npush = ",".join(str(x) for x in r0["npush"])
        key = "uqueue;%s;%s" % (shape(npush, r0["ncons"]), signature(h, line))
        # a lost wake-up is the RECORDED finding only if the execution follows, step by step, the wake-up
        # protocol as transcribed in spec/Uqueue.tla (which loses it too); an execution that leaves the
        # protocol is something else and gets a name of its own
        if idx in left_protocol:
            where = left_protocol[idx]
            nm = re.sub(r"[^a-z0-9]+", "-", where.split(":")[-1].strip(" )"))
            key = key + ";not-the-recorded-protocol;" + nm
        if key in seen_keys:
            continue
        seen_keys.add(key)
        hs, _ = harness(ctx, binp, r0["L"], npush, r0["ncons"], r0["drain"], r0["gran"], ["replay", r0["sched"]])
        rej2 = ctx.validate_histories_1pass("Uqueue_Trace", "Uqueue_Trace.cfg", hs, tag="uqre") if hs else []
        if not rej2:
            raise vlib.ToolError("rejected trace did not reproduce: %s" % r0)
        ev = h[line - 1] if 0 < line <= len(h) else {}
        ctx.violation(key, "trace of the real uqueue (L=%d, producers %s, %d consumer(s)) rejected at event %d %s: %s"
                      % (r0["L"], npush, r0["ncons"], line, json.dumps(ev), key),
                      {"cmd": "sched_uqueue %d %s %d %d %s replay %s" % (r0["L"], npush, r0["ncons"], r0["drain"], r0["gran"], r0["sched"]),
                       "trace": h, "source": source})


def run(ctx):
    ctx.assumptions += ["sequentially consistent atomics; eventfd read/write atomic; event loops are level-triggered on descriptor readability (libev semantics)",
                        "macro granularity treats a ufifo push/pop attempt as atomic (justified by C07); the fine granularity explores every yield point within a preemption bound"]
    run_uqueue(ctx)
    try:
        from checks import c08_udeal
    except ImportError:
        c08_udeal = None
    if c08_udeal:
        c08_udeal.run_udeal(ctx)
    ctx.trusted += ["harness/vsched.c", "TLC", "Linux eventfd/poll"]


def replay(ctx, rp):
    from checks import schedreplay
    return schedreplay.replay_cmd(ctx, rp, "C08", {
        "sched_uqueue": dict(src=["sched_uqueue.c", "vsched.c"], trace=("Uqueue_Trace", "Uqueue_Trace.cfg"), onepass=True),
        "sched_udeal": dict(src=["sched_udeal.c", "vsched.c"], trace=("Udeal_Trace", "Udeal_Trace.cfg"), onepass=True)})
