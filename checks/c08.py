"""C08 - event-driven waiting never loses a wake-up; the dealer grants exclusively.

uqueue part
 1. TLC checks spec/Uqueue.tla (every descriptor read/write and counter
    operation an action, FIFO atomic per C07) for SPSC / SPMC / MPSC shapes.
 2. For every shape the real uqueue (real eventfds, mock event loops) is
    explored at the same granularity (DFS, preemption-bounded) and at the
    granularity of every yield point; traces are validated by the abstract
    spec/Uqueue_Trace.tla (Occupancy, NoLostWakeup, NoInvention).
 3. Counterexample schedules of TLC (shapes where the MODEL violates
    NoLostWakeup, and the negative variant) are replayed on the real code in
    lock-step: only if the real code follows into the bad state is it a
    violation (DESIGN.md 2.2).
udeal part: see run_udeal().
"""
import json
import vlib

LEVEL = "model_checking"

# cfg, L, npush, ncons, drain, expected to hold in the model
MODELS = [
    ("spsc_l1", 1, "3", 1, 0), ("spsc_l2", 2, "3", 1, 0), ("spsc_l1_drain", 1, "3", 1, 1),
    ("spmc_l1", 1, "3", 2, 0), ("spmc_l2_drain", 2, "3", 2, 1),
    ("mpsc_l1", 1, "2,2", 1, 0), ("mpsc_l2", 2, "2,2", 1, 0),
]
# real-code exploration: (L, npush, ncons, drain, gran, pb quick, pb thorough)
DFS = [
    (1, "3", 1, 0, "macro", 3, 5), (2, "3", 1, 0, "macro", 3, 5), (1, "3", 1, 1, "macro", 3, 5),
    (2, "4", 1, 1, "macro", 2, 4),
    (1, "3", 1, 0, "fine", 2, 3), (2, "3", 1, 1, "fine", 1, 2),
    (1, "2,2", 1, 0, "macro", 2, 3), (2, "2,2", 1, 0, "macro", 2, 3), (1, "2,1", 1, 1, "macro", 2, 3),
    (1, "3", 2, 0, "macro", 2, 3), (2, "3", 2, 1, "macro", 2, 3),
    (1, "2,2", 1, 0, "fine", 1, 2),
]


def shape(npush, ncons):
    return ("m" if "," in npush else "s") + "p" + ("m" if ncons > 1 else "s") + "c"


def parse(text):
    hs = []
    for line in text.splitlines():
        if line.startswith("{"):
            e = json.loads(line)
            if e["e"] == "Reset":
                hs.append([e])
            else:
                hs[-1].append(e)
    return hs


def harness(ctx, binp, L, npush, ncons, drain, gran, args, timeout=1500):
    r = ctx.run([binp, str(L), npush, str(ncons), str(drain), gran] + [str(a) for a in args], timeout=timeout)
    if r.returncode == 4:
        return None, {"diverged": True}
    if r.returncode != 0:
        raise vlib.ToolError("sched_uqueue rc=%d %s" % (r.returncode, r.stderr[-1500:]))
    st = {}
    for l in r.stderr.splitlines():
        if l.startswith("{"):
            st.update(json.loads(l))
    return parse(r.stdout), st


def signature(h, line):
    """What failed, from the rejected event and simple counts (for the key)."""
    ev = h[line - 1] if 0 < line <= len(h) else {}
    if ev.get("e") == "Quiescent":
        ok = sum(1 for e in h[:line] if e["e"] == "PushRet" and e["ok"])
        got = sum(1 for e in h[:line] if e["e"] == "PopRet" and e["v"])
        return "consumer-asleep-with-element" if ok > got else "producer-asleep-with-free-slot"
    return {"PushRet": "occupancy", "PopRet": "invention-or-duplicate"}.get(ev.get("e"), ev.get("e", "?"))


def run_uqueue(ctx):
    binp = ctx.cc("sched_uqueue", ["sched_uqueue.c", "vsched.c"])
    pool = []
    model_verdicts = {}
    for cfg, L, npush, ncons, drain in MODELS:
        res = ctx.tlc("MCUqueue", "MCUqueue_%s.cfg" % cfg, workers=1)
        model_verdicts[cfg] = res.violated
        if res.violated:
            # the MODEL loses a wake-up: replay its schedule on the real code
            sched = "".join(str(x - 1) for x in (res.last_seq("sched") or []))
            hs, st = harness(ctx, binp, L, npush, ncons, drain, "macro", ["replay", sched])
            follows = hs is not None and st.get("replay_len") == len(sched)
            ctx.extra.setdefault("model_counterexamples", []).append(
                {"cfg": cfg, "violated": res.violated, "sched": sched, "real_code_follows_schedule": follows})
            if hs:
                pool += [(h, "TLC counterexample of " + cfg) for h in hs]
    ctx.extra["model_verdicts"] = model_verdicts
    # liveness under fairness on the smallest configuration
    res = ctx.tlc("MCUqueue", "MCUqueue_live_spsc_l1.cfg", workers=1)
    ctx.model_must_hold(res, "Uqueue/live_spsc_l1")
    # negative variant
    res = ctx.tlc("MCUqueue", "MCUqueue_neg_nodoublecheck.cfg", workers=1, count=False)
    if not res.violated:
        raise vlib.ToolError("vacuity: negative model variant not rejected")
    sched = "".join(str(x - 1) for x in (res.last_seq("sched") or []))
    hs, st = harness(ctx, binp, 1, "2", 1, 0, "macro", ["replay", sched])
    ctx.extra.setdefault("directed_schedules", []).append({"cfg": "neg_nodoublecheck", "sched": sched, "diverged": hs is None})
    if hs:
        pool += [(h, "counterexample schedule of neg_nodoublecheck") for h in hs]
    # exploration of the real code
    runs = 0
    complete = True
    for L, npush, ncons, drain, gran, pbq, pbt in DFS:
        pb = pbq if ctx.quick else pbt
        hs, st = harness(ctx, binp, L, npush, ncons, drain, gran, ["dfs", pb, 40000 if ctx.quick else 2000000])
        runs += st.get("runs", 0)
        complete = complete and st.get("complete", False)
        ctx.extra.setdefault("dfs", []).append({"L": L, "npush": npush, "ncons": ncons, "drain": drain, "granularity": gran,
                                                "preemption_bound": pb, "schedules": st.get("runs"),
                                                "distinct_traces": st.get("unique"), "complete_within_bound": st.get("complete")})
        pool += [(h, "dfs %s pb=%d" % (gran, pb)) for h in hs]
        if hs and gran == "macro":
            ctx.sample({"uqueue": {"L": L, "npush": npush, "ncons": ncons}, "trace": hs[len(hs) // 2][:16]}, limit=2)
        hs, st = harness(ctx, binp, L, npush, ncons, drain, gran, ["random", 1500 if ctx.quick else 100000, ctx.seed, 5])
        runs += st.get("runs", 0)
        pool += [(h, "random %s" % gran) for h in hs]
    ctx.evaluations += runs
    ctx.extra["uqueue_schedules_run_on_real_code"] = runs
    ctx.extra["uqueue_dfs_complete_within_preemption_bound"] = complete
    hists = [h for h, _ in pool]
    rej = ctx.validate_histories_1pass("Uqueue_Trace", "Uqueue_Trace.cfg", hists, tag="uq")
    ctx.extra["uqueue_traces_rejected"] = len(rej)
    seen_keys = set()
    for idx, line, inv in rej:
        h, source = pool[idx]
        r0 = h[0]
        npush = ",".join(str(x) for x in r0["npush"])
        key = "uqueue;%s;%s" % (shape(npush, r0["ncons"]), signature(h, line))
        if key in seen_keys:
            continue
        seen_keys.add(key)
        hs, _ = harness(ctx, binp, r0["L"], npush, r0["ncons"], r0["drain"], r0["gran"], ["replay", r0["sched"]])
        rej2 = ctx.validate_histories_1pass("Uqueue_Trace", "Uqueue_Trace.cfg", hs, tag="uqre") if hs else []
        if not rej2:
            raise vlib.ToolError("rejected trace did not reproduce: %s" % r0)
        ev = h[line - 1] if 0 < line <= len(h) else {}
        ctx.violation(key, "trace of the real uqueue (L=%d, producers %s, %d consumer(s)) rejected at event %d %s: %s"
                      % (r0["L"], npush, r0["ncons"], line, json.dumps(ev), key),
                      {"cmd": "sched_uqueue %d %s %d %d %s replay %s" % (r0["L"], npush, r0["ncons"], r0["drain"], r0["gran"], r0["sched"]),
                       "trace": h, "source": source})


def run(ctx):
    ctx.assumptions += ["sequentially consistent atomics; eventfd read/write atomic; event loops are level-triggered on descriptor readability (libev semantics)",
                        "macro granularity treats a ufifo push/pop attempt as atomic (justified by C07); the fine granularity explores every yield point within a preemption bound"]
    run_uqueue(ctx)
    try:
        from checks import c08_udeal
    except ImportError:
        c08_udeal = None
    if c08_udeal:
        c08_udeal.run_udeal(ctx)
    ctx.trusted += ["harness/vsched.c", "TLC", "Linux eventfd/poll"]


def replay(ctx, rp):
    from checks import schedreplay
    return schedreplay.replay_cmd(ctx, rp, "C08", {
        "sched_uqueue": dict(src=["sched_uqueue.c", "vsched.c"], trace=("Uqueue_Trace", "Uqueue_Trace.cfg"), onepass=True),
        "sched_udeal": dict(src=["sched_udeal.c", "vsched.c"], trace=("Udeal_Trace", "Udeal_Trace.cfg"), onepass=True)})
