"""C06, worker stage - upipe_wlin / upipe_wsink / upipe_wsrc (upipe_worker.c) with
freeze / thaw of the worker's event loop.

run_part(ctx) is called by checks/c06.py at the end of its run().

1. TLC checks spec/Worker.tla (detailed model of the worker bin at call-back
   granularity: two queue sink/source pairs around the remote pipe, command
   queue of the transfer manager, event queues of the transfer pipes, blocked
   pumps, freeze, the release cascade) exhaustively for fixed application
   programs of the three flavours and for ALL programs of bounded length,
   queue lengths 1-2, against InOrderOnce, FlowDefFirst, EndLast, Confinement,
   HoldNotDrop, FreedOnce; coverage guard; four broken variants must be
   rejected.
2. spec -> code: behaviours TLC emits in simulation (script of calls and pump
   dispatches + the observations the model predicts: every entry of the
   remote pipe with its thread, every delivery, every forwarded event, deaths)
   are executed by harness/sched_worker.c on the REAL pipes over two mock event
   loops and compared observation by observation.
3. code -> spec: application and worker run as virtual threads under the
   scheduler (hooks H1-H4), preemption-bounded DFS and seeded random
   schedules; every recorded trace (and every replayed script) is validated by
   the abstract spec/Worker_Trace.tla.
"""
import json
import concurrent.futures
import vlib

WRAP = ("-Wl,--wrap=malloc,--wrap=calloc,--wrap=realloc,--wrap=free,--wrap=strdup,"
        "--wrap=pthread_key_create,--wrap=pthread_key_delete,--wrap=pthread_getspecific,--wrap=pthread_setspecific")
SRC = ["sched_worker.c", "vsched.c", "vloop.c", "lib/upipe/umem_alloc.c", "lib/upipe/udict_inline.c",
       "lib/upipe/uref_std.c", "lib/upipe/upump_common.c", "lib/upipe/uprobe.c", "lib/upipe/uprobe_prefix.c",
       "lib/upipe/uprobe_transfer.c", "lib/upipe-modules/upipe_queue.c", "lib/upipe-modules/upipe_queue_sink.c",
       "lib/upipe-modules/upipe_queue_source.c", "lib/upipe-modules/upipe_transfer.c",
       "lib/upipe-modules/upipe_worker.c", "lib/upipe-pthread/uprobe_pthread_upump_mgr.c"]

FIXED_Q = ["lin11_oAiizctir", "lin11_oAiOiBir", "sink1_AiizctBir", "src1_ozctr", "nomx_Aicr", "free5_lin11"]
FIXED_T = ["lin11_oAiBiir", "lin12_oAiiiir", "lin21_oAiiiir", "sink2_Aiiicr", "src2_oOr", "free6_lin11", "free7_sink1",
           "free5_src1", "free8_lin12", "free8_sink2", "free9_lin11", "free10_sink1", "free6_src1"]
COVER = {"lin11_oAiizctir": ["SetFd", "Input", "SetOut", "Freeze", "Thaw", "Ctl", "Release", "WatcherA", "PumpOut",
                             "OobOut", "Events1", "Events2", "Manager", "PumpIn", "OobIn", "WatcherW"],
         "src1_ozctr": ["Idler", "SetOut", "Freeze", "Thaw", "Ctl", "Release", "Manager", "WatcherW", "PumpOut", "OobOut"]}
# negative variant -> invariant that must be violated
NEG = {"neg_dropfull": ("InOrderOnce", "HoldNotDrop"), "neg_freezenoop": ("Confinement",),
       "neg_earlyfree": ("EndLast",), "neg_nomutexleak": ("FreedOnce",)}
# emit cfg -> (flavour, inlen, outlen, mutex, srcprog)
EMIT = {"emit_lin": ("lin", 1, 1, 1, "-"), "emit_linO": ("lin", 1, 1, 1, "-"), "emit_eager": ("lin", 1, 1, 1, "-"), "emit_lin21": ("lin", 2, 1, 1, "-"), "emit_sink": ("sink", 1, 1, 1, "-"),
        "emit_src": ("src", 1, 1, 1, "AiiBi"), "emit_src2": ("src", 1, 2, 1, "AiBii"), "emit_nomx": ("sink", 1, 1, 0, "-")}
EMIT_Q = ["emit_lin", "emit_linO", "emit_sink", "emit_src", "emit_nomx"]
# (flavour, inlen, outlen, mutex, program of A, poll, program of the remote source, pb quick, pb thorough)
SCHED = [("lin", 1, 1, 1, "oAiBiir", 0, "-", 1, 2), ("lin", 1, 1, 1, "oAiizctir", 0, "-", 1, 2),
         ("lin", 1, 2, 1, "oAiOiir", 1, "-", 1, 2), ("sink", 1, 1, 1, "AiizctBir", 0, "-", 1, 2),
         ("sink", 2, 1, 1, "Aiiicr", 1, "-", 1, 2), ("src", 1, 1, 1, "owzctwr", 0, "AiiBi", 1, 2),
         ("src", 1, 2, 1, "owOwwr", 0, "AiBii", 1, 2), ("lin", 1, 1, 0, "oAicir", 0, "-", 1, 2),
         ("sink", 1, 1, 0, "AiBir", 1, "-", 1, 2)]
SCHED_T = [("lin", 2, 1, 1, "ozAictBiir", 0, "-", 1, 2), ("lin", 1, 1, 1, "oAiiiir", 1, "-", 1, 2),
           ("sink", 1, 1, 1, "zAictir", 0, "-", 1, 2)]


def parse(text):
    hs = []
    for line in text.splitlines():
        if line.startswith("{"):
            try:
                e = json.loads(line)
            except ValueError:
                continue
            if e["e"] == "Reset":
                hs.append([e])
            elif hs:
                hs[-1].append(e)
    return hs


def obs_of(h):
    """The observations the model predicts, as printed by the harness (no judgement here)."""
    o = []
    for e in h:
        k = e["e"]
        if k == "REnter":
            if e["k"] == "flowdef":
                o.append("RFd:%s:%d" % (e["f"], e["th"]))
            elif e["k"] == "input":
                o.append("RIn:%d:%d" % (e["id"], e["th"]))
            elif e["k"] == "control":
                o.append("RCtl:%d" % e["th"])
            elif e["k"] == "free":
                o.append("RFree:%d" % e["th"])
        elif k == "OutFd":
            o.append("OFd:%s:%d" % (e["f"], e["s"]))
        elif k == "Out":
            o.append("Out:%d:%d" % (e["id"], e["s"]))
        elif k == "Forward":
            o.append("Fwd:%s" % e["ev"])
        elif k == "Dead" and e["p"] == "handle":
            o.append("Dead:handle")
        elif k == "MgrFree":
            o.append("MgrFree")
    return o


def cfg_args(r0):
    return [r0["fl"], str(r0["il"]), str(r0["ol"]), str(r0["mx"])]


CRASHED = [0]        # executions of this run of the check that crashed or hung (script mode)


def run_scripts(ctx, binp, fl, il, ol, mx, src, scripts, max_crashed=2, force=False):
    """Execute scripts (one execution each).  An execution that crashes or hangs ends the process: it is kept
    (its trace ends with Crash / Hang), the following scripts are run by a new process; after a few of those
    the remaining scripts are dropped (never judged)."""
    out = []
    todo = list(scripts)
    crashed = 0
    while todo and crashed <= max_crashed and (force or CRASHED[0] < 4):
        chunk = todo[:150]
        cmd = [binp, fl, str(il), str(ol), str(mx), "script", ",".join(s or "-" for s in chunk)]
        if src != "-":
            cmd.append(src)
        r = ctx.run(cmd, timeout=600)
        if r.returncode != 0:
            raise vlib.ToolError("sched_worker script rc=%d %s" % (r.returncode, (r.stderr or "")[-1500:]))
        hs = parse(r.stdout)
        out += hs
        if len(hs) < len(chunk) or (hs and hs[-1][-1]["e"] in ("Crash", "Hang")):
            crashed += 1
            CRASHED[0] += 1
            if not hs:
                raise vlib.ToolError("sched_worker script: no execution recorded")
        todo = todo[max(len(hs), 1):]
    return out


def run_sched(ctx, binp, fl, il, ol, mx, prog, poll, src, args, timeout=1700):
    r = ctx.run([binp, fl, str(il), str(ol), str(mx), "sched", prog, str(poll), src] + [str(a) for a in args], timeout=timeout)
    if r.returncode != 0:
        raise vlib.ToolError("sched_worker sched %s %s rc=%d %s" % (fl, prog, r.returncode, (r.stderr or "")[-1500:]))
    st = {}
    for l in (r.stderr or "").splitlines():
        if l.startswith("{"):
            st.update(json.loads(l))
    return parse(r.stdout), st


def rerun(ctx, binp, r0):
    """Re-execute the execution described by a Reset record."""
    if r0["kind"] == "script":
        return run_scripts(ctx, binp, r0["fl"], r0["il"], r0["ol"], r0["mx"], r0["src"] or "-", [r0["what"]], force=True)
    prog, poll = r0["what"].split("/")
    hs, _ = run_sched(ctx, binp, r0["fl"], r0["il"], r0["ol"], r0["mx"], prog, int(poll), r0["src"] or "-",
                      ["replay", r0["sched"]], timeout=300)
    return hs


def cmd_of(r0):
    if r0["kind"] == "script":
        return "sched_worker %s script %s %s" % (" ".join(cfg_args(r0)), r0["what"], r0["src"])
    prog, poll = r0["what"].split("/")
    return "sched_worker %s sched %s %s %s replay %s" % (" ".join(cfg_args(r0)), prog, poll, r0["src"] or "-", r0["sched"])


def key_of(h, line):
    """Stable name of a rejected execution (naming only: the verdict is TLC's)."""
    ev = h[line - 1] if 0 < line <= len(h) else {}
    r0 = h[0]
    e = ev.get("e", "?")
    if e == "Touch":
        what = ev.get("what")
        return {"xfer_mgr": "xfer_mgr;detach;manager-freed-during-push",
                "qsrc": "qsrc;ref_end;queue-source-freed-during-push",
                "xfer": "xfer;dead;xfer-pipe-freed-during-push"}.get(what, "worker;use-after-free;%s" % what), \
            "hooked access (kind %s, thread %s) into a block freed by thread %s" % (ev.get("kind"), ev.get("th"), ev.get("by"))
    if e == "Quiescent":
        before = h[:line]
        has = lambda pred: any(pred(x) for x in before)
        released = has(lambda x: x["e"] == "Release")
        missing = []
        if released:
            if not has(lambda x: x["e"] == "REnter" and x["k"] == "free"):
                missing.append("remote-not-freed")
            if not has(lambda x: x["e"] == "Dead" and x["p"] == "handle"):
                missing.append("worker-pipe-not-dead")
            if not has(lambda x: x["e"] == "MgrFree"):
                missing.append("manager-not-freed")
            if ev.get("live", 0) > 0:
                missing.append("blocks-left-allocated")
        if r0["mx"] == 0 and has(lambda x: x["e"] == "Ctl") and "manager-not-freed" in missing:
            return "worker;control-without-mutex;manager-reference-leaked", \
                "after a control command the bin does not know on a worker pipe whose transfer manager has no mutex, " \
                "releasing the worker pipe never frees the manager (%s)" % ",".join(missing)
        sent = sum(1 for x in before if x["e"] in ("Send", "RSend"))
        got = sum(1 for x in before if (x["e"] == "REnter" and x["k"] == "input") or x["e"] == "Out")
        if not missing:
            missing.append("buffers-not-delivered" if got < sent else "not-quiescent")
        return "worker;quiescent;" + ",".join(missing), "at quiescence: " + ",".join(missing)
    sub = ev.get("k") or ev.get("p") or ev.get("ev") or ""
    sig = {"REnter": "remote-pipe-entry", "Out": "delivery-to-output", "OutFd": "flow-def-to-output",
           "Forward": "forwarded-event", "Dead": "death", "MgrFree": "manager-free", "RLoop": "event-loop-of-wrong-thread",
           "CtlRet": "control-on-remote", "FreezeRet": "freeze", "Unlock": "mutex", "Lock": "mutex"}.get(e, e)
    return "worker;%s%s" % (sig, (":" + sub) if sub else ""), "event %s not allowed by the specification here" % json.dumps(ev)


def corrupt(h):
    """Mechanical corruptions of an accepted execution (vacuity guard): each must be rejected."""
    out = []
    idx = [i for i, e in enumerate(h) if e["e"] == "REnter" and e["k"] == "input"]
    if idx:
        c = [dict(e) for e in h]
        c[idx[0]]["th"] = 0
        out.append(("remote input on the application thread", c))
    outs = [i for i, e in enumerate(h) if e["e"] == "Out"]
    if len(outs) >= 2:
        c = [dict(e) for e in h]
        c[outs[0]]["id"], c[outs[1]]["id"] = c[outs[1]]["id"], c[outs[0]]["id"]
        out.append(("two deliveries swapped", c))
    fw = [i for i, e in enumerate(h) if e["e"] == "Forward"]
    if fw:
        c = [dict(e) for e in h]
        c[fw[0]]["th"] = 1
        out.append(("event forwarded on the worker thread", c))
    if any(e["e"] == "MgrFree" for e in h) and any(e["e"] == "Release" for e in h):
        out.append(("manager never freed", [dict(e) for e in h if e["e"] != "MgrFree"]))
    return out


def ptlc(ctx, jobs, par=4):
    """Run several ctx.tlc(...) concurrently; jobs = [(key, kwargs)] -> {key: result}."""
    res = {}
    with concurrent.futures.ThreadPoolExecutor(max_workers=par) as ex:
        futs = {ex.submit(ctx.tlc, "MCWorker", **kw): k for k, kw in jobs}
        for f in concurrent.futures.as_completed(futs):
            res[futs[f]] = f.result()
    return res


def build(ctx):
    return ctx.cc("sched_worker", SRC, flags=[WRAP], libs=["-lpthread"])


def validate_chunks(ctx, hists, tag, budget=300000):
    """validate_histories_1pass on chunks of at most `budget` trace lines, four TLC runs at a time."""
    chunks, cur, n = [], [], 0
    for i, h in enumerate(hists):
        if cur and n + len(h) > budget:
            chunks.append(cur)
            cur, n = [], 0
        cur.append(i)
        n += len(h)
    if cur:
        chunks.append(cur)
    if len(chunks) <= 1:
        return ctx.validate_histories_1pass("Worker_Trace", "Worker_Trace.cfg", hists, tag=tag)
    rej = []
    with concurrent.futures.ThreadPoolExecutor(max_workers=4) as ex:
        futs = [ex.submit(ctx.validate_histories_1pass, "Worker_Trace", "Worker_Trace.cfg", [hists[i] for i in ch],
                          tag="%s%d" % (tag, k)) for k, ch in enumerate(chunks)]
        for ch, f in zip(chunks, futs):
            rej += [(ch[i], line, inv) for i, line, inv in f.result()]
    return sorted(rej)


def judge(ctx, binp, pool, tag="wk"):
    """Validate executions against Worker_Trace.tla, report each rejected kind once (after reproducing it)."""
    hists = [h for h, _ in pool]
    rej = validate_chunks(ctx, hists, tag)
    first = {}
    for idx, line, _ in rej:
        key, why = key_of(pool[idx][0], line)
        first.setdefault(key, (idx, line, why))
    # reproduce: re-execute one execution per kind, validate them together
    again = []
    for key, (idx, line, why) in first.items():
        hs2 = rerun(ctx, binp, pool[idx][0][0])
        if len(hs2) != 1:
            raise vlib.ToolError("re-execution failed: %s" % cmd_of(pool[idx][0][0]))
        again.append((key, hs2[0]))
    if again:
        rej2 = ctx.validate_histories_1pass("Worker_Trace", "Worker_Trace.cfg", [h for _, h in again], tag=tag + "re")
        ctx.traces -= len(again)
        got = set((i, key_of(again[i][1], line)[0]) for i, line, _ in rej2)
        for i, (key, h2) in enumerate(again):
            if (i, key) not in got:
                raise vlib.ToolError("rejected worker trace did not reproduce (%s): %s" % (key, cmd_of(h2[0])))
    for key, (idx, line, why) in first.items():
        h, source = pool[idx]
        r0 = h[0]
        ev = h[line - 1] if 0 < line <= len(h) else {}
        ctx.violation(key, "trace of the real worker pipe (%s, queues %d/%d, mutex %d, %s %s) rejected at event %d %s: %s"
                      % (r0["fl"], r0["il"], r0["ol"], r0["mx"], r0["kind"], r0["what"], line, json.dumps(ev), why),
                      {"stage": "worker", "cmd": cmd_of(r0), "reset": r0, "trace": h, "source": source})
    return rej


def run_part(ctx):
    with concurrent.futures.ThreadPoolExecutor(max_workers=1) as bex:
        # the harness is compiled and the schedules are explored while TLC checks the models
        bfut = bex.submit(build_and_explore, ctx)
        _run_part(ctx, bfut)


def explore(ctx, binp, item):
    fl, il, ol, mx, prog, poll, src, pbq, pbt = item
    pb = pbq if ctx.quick else pbt
    hs, st = run_sched(ctx, binp, fl, il, ol, mx, prog, poll, src, ["dfs", pb, 4000 if ctx.quick else 30000])
    hr, sr = run_sched(ctx, binp, fl, il, ol, mx, prog, poll, src, ["random", 150 if ctx.quick else 8000, ctx.seed, 6])
    return item, pb, hs, st, hr, sr


def build_and_explore(ctx):
    binp = build(ctx)
    sched = SCHED + ([] if ctx.quick else SCHED_T)
    with concurrent.futures.ThreadPoolExecutor(max_workers=3 if ctx.quick else 4) as ex:
        return binp, list(ex.map(lambda it: explore(ctx, binp, it), sched))


def _run_part(ctx, bfut):
    CRASHED[0] = 0
    ctx.assumptions += [
        "worker stage: the remote pipe is a recording pipe of the harness (linear / sink / idler-driven source); the "
        "application sets the output of a worker pipe before it lets anything flow (a queue source without output drops)",
        "worker stage: the mutex is a umutex of the harness on the scheduler (upump_mgr_run(mgr, mutex) discipline: the "
        "worker's loop holds it while it invokes watchers); the real uprobe_pthread_upump_mgr runs with pthread TLS mapped "
        "to logical threads; command and event queues of the transfer manager are long enough (16) never to be full",
        "worker stage: scheduling points are every hooked access (H1-H4) to a location that both threads touch "
        "(learnt in pilot runs), every event descriptor operation, mutex operation and API call boundary"]
    # 1. exhaustive models
    fixed = FIXED_Q + ([] if ctx.quick else FIXED_T)
    jobs = [(c, dict(cfg="MCWorker_%s.cfg" % c, workers=1, timeout=1500, coverage=(c in COVER))) for c in fixed]
    jobs += [(c, dict(cfg="MCWorker_%s.cfg" % c, workers=1, count=False)) for c in NEG]
    emits = EMIT_Q if ctx.quick else list(EMIT)
    nsim = 150 if ctx.quick else 4000
    jobs += [(c, dict(cfg="MCWorker_%s.cfg" % c, workers=1, simulate=nsim, depth=150, count=False, deadlock=False, timeout=1500))
             for c in emits]
    res = ptlc(ctx, jobs)
    binp, explored = bfut.result()
    for c in fixed:
        ctx.model_must_hold(res[c], "Worker/" + c)
        if c in COVER:
            ctx.require_coverage(res[c], COVER[c])
    pool = []
    directed = []
    for c, invs in NEG.items():
        if not any(i in res[c].violated for i in invs):
            raise vlib.ToolError("vacuity: negative variant %s not rejected (%s)" % (c, res[c].violated))
    # the defect variant's counterexample is a directed test of the real code
    v = res["neg_nomutexleak"].last_value("hist") or ""
    script = "".join(ch for ch in v if ch in "ABioOztcrxqeKskpPvVw")
    if script:
        hs = run_scripts(ctx, binp, "sink", 1, 1, 0, "-", [script])
        directed.append({"cfg": "neg_nomutexleak", "script": script})
        pool += [(h, "counterexample script of model variant nomutexleak") for h in hs]
    ctx.extra["worker_directed_scripts"] = directed
    # 2. spec -> code
    drift = None
    nbeh = 0
    for c in emits:
        ctx.model_must_hold(res[c], "Worker/" + c)
        fl, il, ol, mx, src = EMIT[c]
        behs = {}
        for b in res[c].beh():
            behs.setdefault("".join(b["script"]), b)
        scripts = sorted(behs)
        hs = run_scripts(ctx, binp, fl, il, ol, mx, src, scripts)
        for h in hs:
            s = h[0]["what"]
            if s not in behs:
                raise vlib.ToolError("sched_worker executed an unknown script %r (%s)" % (s, c))
            nbeh += 1
            end = [j for j, e in enumerate(h) if e["e"] == "EndScript"]
            cut = end[0] if end else len(h)
            got, late = obs_of(h[:cut]), obs_of(h[cut:])
            if (got != behs[s]["obs"] or late) and drift is None:
                drift = {"cfg": c, "script": s, "model": behs[s]["obs"], "code": got, "code_after_script": late}
            pool.append((h, "model behaviour " + c))
        if hs:
            ctx.sample({"worker_script": hs[0][0]["what"], "flavour": fl, "observations": obs_of(hs[0])}, limit=8)
    ctx.extra["worker_model_behaviours_replayed"] = nbeh
    ctx.extra["worker_model_drift"] = drift is not None
    if drift:
        ctx.extra["worker_model_drift_first"] = drift
        ctx.notes.append("worker stage: detailed model and code disagree on a replayed behaviour (model drift): "
                         "the verdict rests on the abstract trace specification")
    # 3. code -> spec: fine-grained schedules
    runs = 0
    for item, pb, hs, st, hr, sr in explored:
        fl, il, ol, mx, prog, poll, src = item[:7]
        runs += st.get("runs", 0) + sr.get("runs", 0)
        ctx.extra.setdefault("worker_dfs", []).append(
            {"flavour": fl, "inlen": il, "outlen": ol, "mutex": mx, "prog": prog, "poll": poll, "src": src,
             "preemption_bound": pb, "schedules": st.get("runs"), "distinct_traces": st.get("unique"),
             "complete_within_bound": st.get("complete"), "max_steps": st.get("max_len")})
        pool += [(h, "dfs pb=%d" % pb) for h in hs] + [(h, "random seed=%d" % ctx.seed) for h in hr]
        if hs:
            ctx.sample({"worker_sched": prog, "flavour": fl,
                        "trace": [e for e in hs[0][1:] if e["e"] not in ("Lock", "Unlock", "RLeave")][:24]}, limit=8)
    ctx.evaluations += runs + nbeh
    ctx.extra["worker_schedules_run_on_real_code"] = runs
    # vacuity: corrupted copies of an accepted execution must be rejected
    # (a first pass finds an accepted execution; a broken tree may have none: then nothing is built)
    rej = judge(ctx, binp, pool)
    bad = set(i for i, _, _ in rej)
    best = []
    for i, (h, source) in enumerate(pool):
        if i not in bad and h[0]["fl"] == "lin" and h[0]["mx"] == 1:
            c = corrupt(h)
            if len(c) > len(best):
                best = c
            if len(best) == 4:
                break
    if best:
        cpool = [(c, "corrupted: " + what) for what, c in best]
        crej = set(i for i, _, _ in ctx.validate_histories_1pass("Worker_Trace", "Worker_Trace.cfg", [c for c, _ in cpool], tag="wkc"))
        ctx.traces -= len(cpool)
        missed = [s for i, (c, s) in enumerate(cpool) if i not in crej]
        if missed:
            raise vlib.ToolError("vacuity: corrupted worker traces accepted: %s" % missed)
    ctx.extra["worker_corrupted_traces_rejected"] = len(best)
    ctx.trusted += ["harness/sched_worker.c (recording remote pipe, scheduler mutex, arena allocator with quarantine, "
                    "per-logical-thread pthread TLS)"]


def replay(ctx, rp):
    """bin/check C06 --replay file, for replay files written by this stage."""
    r = rp.get("replay", {})
    if r.get("stage") != "worker":
        return None
    binp = build(ctx)
    hs = rerun(ctx, binp, r["reset"])
    rej = ctx.validate_histories_1pass("Worker_Trace", "Worker_Trace.cfg", hs, tag="wkrp") if hs else []
    for idx, line, _ in rej:
        key, why = key_of(hs[idx], line)
        if key == rp.get("key"):
            print("REPRODUCED property=C06 key=%s: %s" % (key, why))
            return 1
    print("NOT-REPRODUCED property=C06 key=%s" % rp.get("key"))
    return 0
