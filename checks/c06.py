"""C06 - buffers cross threads exactly once, in order, through queue pipes.

1. TLC checks spec/QueuePipes.tla (upipe_qsink / upipe_qsrc at call-back
   granularity: flow definition, flow_def_sent flag, spool, bounded queue,
   out-of-band SOURCE_END) for fixed producer programs and for ALL programs of
   bounded length (FreeLen), queue lengths 1-3.
2. spec -> code: the behaviours TLC emits (script of producer calls and loop
   dispatches + predicted deliveries) are replayed on the REAL pipes running
   on two mock event loops (harness/sched_queue.c, vloop over the real
   upump_common.c), deliveries compared; counterexample of the negative model
   variant (S12) replayed as a directed test.
3. code -> spec: every recorded trace (scripts, and preemption-bounded DFS /
   random schedules at every yield point of hooks H1-H3 with the producer and
   consumer as virtual threads) is validated by the abstract
   spec/QueuePipes_Trace.tla (InOrderOnce, FlowDefFirst, SourceEndLast,
   HoldNotDrop, Confinement of the consumer-side pipes).
"""
import json
import vlib

LEVEL = "model_checking"
SRC = ["sched_queue.c", "vsched.c", "vloop.c", "lib/upipe/umem_alloc.c", "lib/upipe/udict_inline.c",
       "lib/upipe/uref_std.c", "lib/upipe/upump_common.c", "lib/upipe/uprobe.c",
       "lib/upipe-modules/upipe_queue.c", "lib/upipe-modules/upipe_queue_sink.c",
       "lib/upipe-modules/upipe_queue_source.c"]
FIXED = ["l1_AiiBiir", "l2_AiiBiir", "l1_AiBifir", "l2_AiiifiBir", "l1_Aiiiir", "l3_Aiiiir", "l1_AiBiAir"]
FREE_Q = ["free5_l1", "free6_l2", "free7_l1"]
FREE_T = ["free8_l2"]
# (L, program, poll, pb quick, pb thorough)
SCHED = [(1, "AiiBiir", 1, 1, 2), (1, "AiBifir", 0, 1, 2), (2, "AiiifiBir", 1, 1, 2), (1, "Aiiiir", 0, 2, 3),
         (3, "AiiiiBiir", 1, 1, 2), (1, "AiBiAir", 1, 1, 2)]


def parse(text):
    hs = []
    for line in text.splitlines():
        if line.startswith("{"):
            e = json.loads(line)
            if e["e"] == "Reset":
                hs.append([e])
            else:
                hs[-1].append(e)
    return hs


def run_scripts(ctx, binp, L, scripts):
    out = []
    for k in range(0, len(scripts), 200):
        r = ctx.run([binp, str(L), "script", ",".join(scripts[k:k + 200])], timeout=600)
        if r.returncode != 0:
            raise vlib.ToolError("sched_queue script rc=%d %s" % (r.returncode, r.stderr[-1500:]))
        out += parse(r.stdout)
    return out


def run_sched(ctx, binp, L, prog, poll, args, timeout=1500):
    r = ctx.run([binp, str(L), "sched", prog, str(poll)] + [str(a) for a in args], timeout=timeout)
    if r.returncode == 4:
        return None, {}
    if r.returncode != 0:
        raise vlib.ToolError("sched_queue sched rc=%d %s" % (r.returncode, r.stderr[-1500:]))
    st = {}
    for l in r.stderr.splitlines():
        if l.startswith("{"):
            st.update(json.loads(l))
    return parse(r.stdout), st


XSRC = ["sched_xfer.c", "vsched.c", "vloop.c", "lib/upipe/upump_common.c", "lib/upipe/uprobe.c",
        "lib/upipe/uprobe_transfer.c", "lib/upipe-modules/upipe_transfer.c"]
# (queue length, application program, W releases its manager reference: 0 at once / 9 never, pb quick, pb thorough)
XDFS = [(4, "aurm", 0, 2, 3), (4, "auurm", 0, 1, 2), (2, "auour", 9, 2, 3), (1, "auurm", 0, 1, 2), (4, "amur", 0, 1, 2)]


def run_xfer(ctx):
    """Transferred pipes (upipe_xfer): Xfer.tla + Xfer_Trace.tla + sched_xfer."""
    binx = ctx.cc("sched_xfer", XSRC, flags=["-Wl,--wrap=free"])
    for c in ("order_full", "order_two", "order_nomgrrel", "life_handshake"):
        res = ctx.tlc("MCXfer", "MCXfer_%s.cfg" % c, workers=1)
        ctx.model_must_hold(res, "Xfer/" + c)
    verdicts = {}
    for c in ("life_code", "life_wlast"):
        res = ctx.tlc("MCXfer", "MCXfer_%s.cfg" % c, workers=1)
        verdicts[c] = res.violated
    ctx.extra["xfer_model_lifetime_verdicts"] = verdicts
    pool = []
    runs = 0
    for qlen, prog, wrel, pbq, pbt in XDFS:
        pb = pbq if ctx.quick else pbt
        for args in (["dfs", pb, 30000 if ctx.quick else 2000000], ["random", 500 if ctx.quick else 50000, ctx.seed, 5]):
            r = ctx.run([binx, str(qlen), prog, str(wrel)] + [str(a) for a in args], timeout=1500)
            if r.returncode != 0:
                raise vlib.ToolError("sched_xfer rc=%d %s" % (r.returncode, r.stderr[-1500:]))
            st = {}
            for l in r.stderr.splitlines():
                if l.startswith("{"):
                    st.update(json.loads(l))
            runs += st.get("runs", 0)
            hs = parse(r.stdout)
            pool += [(h, "%s pb=%s" % (args[0], pb)) for h in hs]
            if args[0] == "dfs":
                ctx.extra.setdefault("xfer_dfs", []).append({"qlen": qlen, "prog": prog, "wrel": wrel, "preemption_bound": pb,
                                                             "schedules": st.get("runs"), "distinct_traces": st.get("unique"),
                                                             "complete_within_bound": st.get("complete")})
                if hs:
                    ctx.sample({"xfer": {"prog": prog}, "trace": hs[0][1:16]}, limit=3)
    ctx.evaluations += runs
    ctx.extra["xfer_schedules_run_on_real_code"] = runs
    rej = ctx.validate_histories_1pass("Xfer_Trace", "Xfer_Trace.cfg", [h for h, _ in pool], tag="xf")
    seen = set()
    for idx, line, inv in rej:
        h, source = pool[idx]
        r0 = h[0]
        ev = h[line - 1] if 0 < line <= len(h) else {}
        sig = {"Touch": "manager-freed-during-push", "Exec": "command-order-or-thread", "Forward": "event-thread-or-invented",
               "Quiescent": "command-or-event-lost"}.get(ev.get("e"), ev.get("e", "?"))
        if ev.get("e") == "Touch":
            last_cmd = [e for e in h[:line] if e["e"] in ("MgrRelease", "HandleDead")]
            key = "xfer_mgr;detach;manager-freed-during-push"
        else:
            key = "xfer;%s" % sig
        if key in seen:
            continue
        seen.add(key)
        r = ctx.run([binx, str(r0["qlen"]), r0["prog"], str(r0["wrel"]), "replay", r0["sched"]], timeout=300)
        hs2 = parse(r.stdout)
        rej2 = ctx.validate_histories_1pass("Xfer_Trace", "Xfer_Trace.cfg", hs2, tag="xfre") if hs2 else []
        if not rej2:
            raise vlib.ToolError("rejected xfer trace did not reproduce: %s" % r0)
        ctx.violation(key, "trace of the real upipe_xfer (program %s) rejected at event %d %s: %s"
                      % (r0["prog"], line, json.dumps(ev), sig),
                      {"cmd": "sched_xfer %d %s %d replay %s" % (r0["qlen"], r0["prog"], r0["wrel"], r0["sched"]), "trace": h, "source": source})


def run(ctx):
    # fourth stage (checks/c06_pthread.py: real threads, ThreadSanitizer) runs beside the others
    import concurrent.futures
    from checks import c06_pthread
    pex = concurrent.futures.ThreadPoolExecutor(max_workers=1)
    pfut = pex.submit(c06_pthread.run_part, ctx)
    try:
        _run(ctx)
    finally:
        pfut.result()
        pex.shutdown()


def _run(ctx):
    # fifth stage: the probe that hands event-loop managers to pipes, per thread (freeze / thaw sections)
    from checks import c06_pmprobe
    c06_pmprobe.run_part(ctx)
    run_queue(ctx)
    run_xfer(ctx)
    # third stage: the worker pipes built on both (checks/c06_worker.py)
    try:
        from checks import c06_worker
    except ImportError:
        c06_worker = None
    if c06_worker is not None:
        c06_worker.run_part(ctx)


def run_queue(ctx):
    binp = ctx.cc("sched_queue", SRC)
    ctx.assumptions += ["one queue sink per queue (per-sink order is what the statement requires)",
                        "event loops are the mock vloop over the real upump_common.c; descriptor readiness from poll()",
                        "data-race freedom between the two threads is NOT decided here (ThreadSanitizer territory): see DESIGN.md C06"]
    for c in FIXED + FREE_Q + ([] if ctx.quick else FREE_T):
        res = ctx.tlc("MCQueuePipes", "MCQueuePipes_%s.cfg" % c, workers=(2 if ctx.quick else 8), timeout=1500)
        ctx.model_must_hold(res, "QueuePipes/" + c)
    pool = []
    # negative variant (S12): must be rejected by TLC; its script is a directed test
    res = ctx.tlc("MCQueuePipes", "MCQueuePipes_neg_s12_free.cfg", workers=1, count=False)
    if "FlowDefFirst" not in res.violated:
        raise vlib.ToolError("vacuity: negative variant s12 not rejected")
    v = res.last_value("hist") or ""
    script = "".join(ch for ch in v if ch in "ABifrwco")
    hs = run_scripts(ctx, binp, 1, [script])
    ctx.extra["directed_scripts"] = [{"cfg": "neg_s12_free", "script": script}]
    pool += [(h, "counterexample script of model variant s12") for h in hs]
    # behaviours with predictions
    drift = None
    nbeh = 0
    for cfg, L, sim in (("emit_l1", 1, None), ("emit_l2", 2, None), ("sim_l1", 1, 300), ("sim_l3", 3, 300)):
        if sim:
            res = ctx.tlc("MCQueuePipes", "MCQueuePipes_%s.cfg" % cfg, workers=1, simulate=sim if ctx.quick else sim * 20,
                          depth=60, count=False)
        else:
            res = ctx.tlc("MCQueuePipes", "MCQueuePipes_%s.cfg" % cfg, workers=1, count=False)
        ctx.model_must_hold(res, "QueuePipes/" + cfg)
        behs = res.beh()
        scripts = ["".join(b["script"]) for b in behs]
        hs = run_scripts(ctx, binp, L, scripts)
        for b, h in zip(behs, hs):
            nbeh += 1
            got = [e["id"] for e in h if e["e"] == "Deliver"]
            want = [d[0] for d in b["delivered"]]
            ended = any(e["e"] == "SourceEnd" for e in h)
            if got != want or ended != b["ended"]:
                drift = drift or {"script": "".join(b["script"]), "model": {"delivered": want, "ended": b["ended"]},
                                  "code": {"delivered": got, "ended": ended}}
            pool.append((h, "model behaviour " + cfg))
        if hs:
            ctx.sample({"script": hs[0][0]["what"], "trace": hs[0][1:14]}, limit=2)
    ctx.extra["model_behaviours_replayed"] = nbeh
    ctx.extra["model_drift"] = drift is not None
    if drift:
        ctx.extra["model_drift_first"] = drift
        ctx.notes.append("detailed model and code disagree on a replayed behaviour (model drift): the verdict rests on the abstract trace specification")
    # fine-grained schedules
    runs = 0
    for L, prog, poll, pbq, pbt in SCHED:
        pb = pbq if ctx.quick else pbt
        hs, st = run_sched(ctx, binp, L, prog, poll, ["dfs", pb, 4000 if ctx.quick else 400000])
        runs += st.get("runs", 0)
        ctx.extra.setdefault("dfs", []).append({"L": L, "prog": prog, "poll": poll, "preemption_bound": pb,
                                                "schedules": st.get("runs"), "distinct_traces": st.get("unique"),
                                                "complete_within_bound": st.get("complete")})
        pool += [(h, "dfs pb=%d" % pb) for h in (hs or [])]
        hs, st = run_sched(ctx, binp, L, prog, poll, ["random", 300 if ctx.quick else 30000, ctx.seed, 8])
        runs += st.get("runs", 0)
        pool += [(h, "random") for h in (hs or [])]
    ctx.evaluations += runs + nbeh
    ctx.extra["schedules_run_on_real_code"] = runs
    hists = [h for h, _ in pool]
    rej = ctx.validate_histories_1pass("QueuePipes_Trace", "QueuePipes_Trace.cfg", hists, tag="qp")
    seen = set()
    for idx, line, inv in rej:
        h, source = pool[idx]
        r0 = h[0]
        ev = h[line - 1] if 0 < line <= len(h) else {}
        sig = {"Deliver": "deliver-out-of-order-or-wrong-flow-def", "Quiescent": "buffer-dropped-or-no-source-end",
               "SourceEnd": "source-end-early", "Enter": "wrong-thread", "FdOut": "wrong-thread"}.get(ev.get("e"), ev.get("e", "?"))
        if ev.get("e") == "Deliver":
            # distinguish wrong flow definition from order problems for the key
            sent_fd = {}
            cur = None
            out = None
            for e in h[:line]:
                if e["e"] == "SetFd":
                    cur = e["f"]
                elif e["e"] == "Send":
                    sent_fd[e["id"]] = cur
                elif e["e"] == "FdOut":
                    out = e["f"]
            if sent_fd.get(ev["id"]) != out:
                sig = "delivered-under-wrong-flow-def"
                if any(e["e"] == "Flush" for e in h[:line]):
                    sig += "-after-flush"
        key = "qsink-qsrc;%s" % sig
        if key in seen:
            continue
        seen.add(key)
        # reproduce
        if r0["kind"] == "script":
            hs2 = run_scripts(ctx, binp, r0["L"], [r0["what"]])
        else:
            prog, poll = r0["what"].split("/")
            hs2, _ = run_sched(ctx, binp, r0["L"], prog, int(poll), ["replay", r0["sched"]])
        rej2 = ctx.validate_histories_1pass("QueuePipes_Trace", "QueuePipes_Trace.cfg", hs2, tag="qpre") if hs2 else []
        if not rej2:
            raise vlib.ToolError("rejected queue trace did not reproduce: %s" % r0)
        ctx.violation(key, "trace of the real qsink->qsrc pipes (L=%d, %s %s) rejected at event %d %s: %s"
                      % (r0["L"], r0["kind"], r0["what"], line, json.dumps(ev), sig),
                      {"cmd": "sched_queue %d %s %s %s" % (r0["L"], r0["kind"], r0["what"], r0.get("sched", "")), "trace": h, "source": source})
    ctx.trusted += ["harness/vsched.c", "harness/vloop.c (mock event loop)", "TLC"]


def replay(ctx, rp):
    if str(rp.get("replay", {}).get("stage", "")).startswith("pthread"):
        from checks import c06_pthread
        return c06_pthread.replay(ctx, rp)
    if rp.get("replay", {}).get("stage") == "pmprobe":
        from checks import c06_pmprobe
        return c06_pmprobe.replay(ctx, rp["replay"])
    if rp.get("replay", {}).get("stage") == "worker":
        from checks import c06_worker
        return c06_worker.replay(ctx, rp)
    from checks import schedreplay
    return schedreplay.replay_cmd(ctx, rp, "C06", {
        "sched_queue": dict(src=SRC, trace=("QueuePipes_Trace", "QueuePipes_Trace.cfg"), onepass=True),
        "sched_xfer": dict(src=XSRC, flags=["-Wl,--wrap=free"], trace=("Xfer_Trace", "Xfer_Trace.cfg"), onepass=True)})
