"""bin/check CNN --replay <file> for the scheduler-based checks (C06-C09): the
replay object holds the harness command line ("cmd": "<harness> <args...>
replay <schedule>"); the harness is rebuilt from /repo's working tree, the
command re-run, and the recorded trace validated by the same trace module."""
import json
import vlib


def parse_traces(text):
    hists = []
    for line in text.splitlines():
        if not line.startswith("{"):
            continue
        e = json.loads(line)
        if e.get("e") == "Reset" or not hists:
            hists.append([e])
        else:
            hists[-1].append(e)
    return hists


def replay_cmd(ctx, rp, pid, specs):
    """specs: harness name -> dict(src=[...], flags=[...], libs=[...], trace=(module, cfg), onepass=bool)."""
    cmd = rp["replay"]["cmd"].split()
    sp = specs.get(cmd[0])
    if sp is None:
        raise vlib.ToolError("replay: unknown harness %r" % cmd[0])
    binp = ctx.cc(cmd[0], sp["src"], flags=sp.get("flags", []), libs=sp.get("libs", []))
    r = ctx.run([binp] + cmd[1:], timeout=600)
    hs = parse_traces(r.stdout)
    if not hs:
        raise vlib.ToolError("replay: the harness printed no trace (rc=%d): %s" % (r.returncode, (r.stderr or "")[-800:]))
    mod, cfg = sp["trace"]
    if sp.get("onepass"):
        rej = ctx.validate_histories_1pass(mod, cfg, hs, tag="rp")
    else:
        rej = ctx.validate_histories(mod, cfg, hs, tag="rp")
    if rej:
        idx, line = rej[0][0], rej[0][1]
        h = hs[idx]
        ev = h[line - 1] if 0 < line <= len(h) else {}
        print("VIOLATION property=%s replay reproduced: event %d %s rejected by %s" % (pid, line, json.dumps(ev)[:400], mod))
        return 1
    print("OK property=%s replay accepted" % pid)
    return 0
