"""C18 - bit-level writers and readers are inverse and stay within bounds.

1. TLC checks the detailed model of spec/Ubits.tla (32-bit cache of
   ubits_put / ubits_clean / ubits_get and of ubuf_block_stream fill / show /
   skip, machine-word semantics, undefined shifts flagged) against the
   abstract bit sequence, exhaustively for small bounds (modes W, R, E), with
   a coverage guard, and must reject the negative variants.
2. spec -> code: the behaviours TLC emits in mode E (fields, capacity,
   predicted octets, predicted NOSPC, predicted read-back) and the
   counterexamples of the negative variants are executed on the real code by
   harness/replay_bits.c (ASan + UBSan) and compared textually.
3. code -> spec: directed and seeded random scripts (widths 1..32, any value,
   capacities from 0 to a few too many, truncated readers, bit offsets,
   every / chosen segmentation) are executed and the recorded events are
   validated by spec/Ubits_Trace.tla (abstract part of Ubits.tla).
A violation is reported only for an execution of the real code that the
trace specification rejects twice (re-run before reporting).
"""
import json, os, re, threading
import vlib

LEVEL = "model_checking"
SRCS = ["replay_bits.c", "lib/upipe/ubuf_block_mem.c", "lib/upipe/ubuf_mem_common.c",
        "lib/upipe/umem_alloc.c"]
TRACE = ("Ubits_Trace", "Ubits_Trace.cfg")
SPECIAL_W = [1, 7, 8, 9, 15, 16, 17, 24, 25, 31, 32]


# ------------------------------------------------------------------ scripts
class Exe:
    """One execution: the commands sent to the harness and, after the run,
    the events it printed."""
    def __init__(self, cmds, source, pred=None):
        self.cmds = cmds
        self.source = source
        self.pred = pred          # behaviour predicted by TLC (spec -> code)
        self.events = None

    def script(self, i):
        return "exec %d\n%s\nend\n" % (i, "\n".join(self.cmds))


def seg_mode(size, quick):
    if size <= (7 if quick else 11):
        return "all"
    if size <= (14 if quick else 40):
        return "le2"
    return None


def read_cmds(size, widths, quick, rng=None, off=0):
    """Commands reading `widths` back with every reader."""
    ws = " ".join(str(w) for w in widths)
    cmds = []
    if off == 0:
        cmds.append("rget %d %s" % (size, ws))
    sm = seg_mode(size, quick)
    if sm:
        cmds.append("sget %d %d %s %s" % (size, off, sm, ws))
    if rng is not None and size > 0:
        cmds.append("sget %d %d %s %s" % (size, off, rand_seg(rng, size), ws))
        # the same through a window spliced out of a larger block (the buffer the reader is given ends inside a
        # segment that goes on: running out of data is still reported, nothing beyond the window is returned)
        cmds.append("sget %d %d w%d.%d:%s %s" % (size, off, rng.below(4), 1 + rng.below(5), rand_seg(rng, size), ws))
        if size >= 2:
            # ... and over a block that was built by append, split and appended to again
            cmds.append("sget %d %d x%d.%d:%s %s" % (size, off, 1 + rng.below(size - 1), 1 + rng.below(4), rand_seg(rng, size), ws))
        # ... and over a block whose old header (exactly its first segment) was stripped, which was looked at, and
        # which got a new header prepended in the room the old one left
        h = 1 + rng.below(6)
        cmds.append("sget %d %d p%d.%d:%s %s" % (size, off, h, 1 + rng.below(h), rand_seg(rng, size), ws))
    cmds.append("oget %d %d %s" % (size, off, ws))
    return cmds


def rand_seg(rng, size):
    segs = []
    left = size
    while left > 0:
        s = min(left, rng.choice([1, 1, 2, 3, 4, 5, 8]))
        if rng.chance(1, 12):
            segs.append(0)            # an empty segment in the middle
        segs.append(s)
        left -= s
    return "+".join(str(s) for s in segs)


def writer_cmds(cap, fields):
    return ["begin %d" % cap] + ["put %d %x" % (w, v) for w, v in fields] + ["clean"]


def total_octets(fields):
    return (sum(w for w, _ in fields) + 7) // 8


def directed(quick):
    out = []
    # DESIGN.md S5 reproducer and the sequences of tests/ubits_test.c
    f = [(16, 0xABCD), (16, 0x1234), (32, 1)]
    out.append(Exe(writer_cmds(8, f) + read_cmds(8, [16, 16, 32], quick), "directed S5"))
    f = [(8, 1), (8, 2), (8, 3), (8, 4), (4, 0), (1, 0), (1, 1), (1, 0), (1, 1)]
    out.append(Exe(writer_cmds(5, f) + read_cmds(5, [w for w, _ in f], quick), "ubits_test 1"))
    f = [(4, 0), (1, 0), (1, 1), (1, 0), (1, 1), (1, 0), (1, 0)]
    out.append(Exe(writer_cmds(1, f) + read_cmds(1, [4, 1, 1, 1, 1, 1], quick), "ubits_test 3"))
    f = [(8, b) for b in (0x02, 0x8f, 0x80, 0x0e, 0x55, 0x81, 0x53, 0x78)]
    out.append(Exe(writer_cmds(8, f) + read_cmds(8, [6, 1, 11, 12, 10, 10, 10], quick), "ubits_test 4"))
    # every width at every fill level of the cache, three capacities
    for k in range(0, 32):
        for w in range(1, 33):
            if quick and (k % 4 not in (0, 1)) and w not in SPECIAL_W:
                continue
            pre = [(k, (1 << k) - 1)] if k else []
            v = 0xAAAAAAAA & ((1 << w) - 1)
            f = pre + [(w, v), (5, 0x15)]
            need = total_octets(f)
            for cap in (need, need - 1, need + 2):
                if cap < 0:
                    continue
                out.append(Exe(writer_cmds(cap, f) + read_cmds(need, [x for x, _ in f] + [3], quick),
                               "directed fill=%d w=%d" % (k, w)))
    return out


def rand_value(rng, w):
    m = (1 << w) - 1
    c = rng.below(6)
    if c == 0:
        return m
    if c == 1:
        return 0
    if c == 2:
        return 0xAAAAAAAA & m
    if c == 3:
        return 1
    return rng.next() & m


def random_exe(rng, quick):
    n = rng.below(13)
    fields = []
    for _ in range(n):
        w = rng.choice(SPECIAL_W) if rng.chance(1, 2) else 1 + rng.below(32)
        fields.append((w, rand_value(rng, w)))
    need = total_octets(fields)
    cap = max(0, need + rng.choice([-3, -2, -1, 0, 0, 0, 1, 2, 4])) if rng.chance(5, 6) else 0
    cmds = writer_cmds(cap, fields)
    ws = [w for w, _ in fields]
    # the same fields, plus something past the end
    cmds += read_cmds(need, ws + [1 + rng.below(32)], quick, rng)
    # a truncated reader
    if need > 0:
        cmds += read_cmds(rng.below(need + 1), ws, quick, rng)
    # other widths than the ones written
    ow = []
    tot = 0
    while tot < 8 * need + 8 and len(ow) < 40:
        w = rng.choice(SPECIAL_W) if rng.chance(1, 3) else 1 + rng.below(32)
        ow.append(w)
        tot += w
    cmds += read_cmds(need, ow, quick, rng)
    # start at a bit offset: after the k first fields, or anywhere
    if n > 1:
        k = 1 + rng.below(n - 1)
        off = sum(ws[:k])
        if off // 8 < need:
            cmds += read_cmds(need, ws[k:] + [9], quick, rng, off=off)
    if need > 0:
        off = rng.below(8 * need)
        cmds += read_cmds(need, ow[:6], quick, rng, off=off)
    return Exe(cmds, "random")


def beh_exe(b, quick, source):
    """spec -> code: a behaviour emitted by TLC (mode E) as a script."""
    fields = [(w, (hi << 16) | lo) for w, hi, lo in b["fields"]]
    ws = [w for w, _ in fields] + [8]
    cmds = writer_cmds(b["cap"], fields)
    size = b["end"]
    cmds.append("rget %d %s" % (size, " ".join(map(str, ws))))
    cmds.append("sget %d 0 %s %s" % (size, seg_mode(size, quick) or "le2", " ".join(map(str, ws))))
    return Exe(cmds, source, pred=b)


# ------------------------------------------------------------------ harness
def kv(line):
    d = {}
    for t in line.split()[1:]:
        k, _, v = t.partition("=")
        d[k] = v
    return d


def hexlist(h):
    return [int(h[i:i + 2], 16) for i in range(0, len(h), 2)]


def parse_event(line):
    tag = line.split(" ", 1)[0]
    if tag == "san":
        d = json.loads(line[4:])
        d["e"] = "San"
        return d
    d = kv(line)
    if tag == "begin":
        return {"e": "Reset", "cap": int(d["cap"])}
    if tag == "put":
        v = int(d["v"], 16)
        return {"e": "Put", "w": int(d["w"]), "hi": v >> 16, "lo": v & 0xFFFF, "n": int(d["n"]),
                "b": hexlist(d["b"]), "ov": int(d["ov"]), "g": int(d["g"])}
    if tag == "clean":
        return {"e": "Clean", "r": int(d["r"]), "end": int(d["end"]), "all": hexlist(d["all"]),
                "g": int(d["g"])}
    if tag == "rinit":
        return {"e": "RInit", "rd": d["rd"], "size": int(d["size"]), "off": int(d["off"]),
                "seg": d["seg"], "nseg": int(d["nseg"]), "ok": int(d["ok"])}
    if tag == "get":
        v = int(d["v"], 16)
        return {"e": "Get", "w": int(d["w"]), "hi": v >> 16, "lo": v & 0xFFFF, "ov": int(d["ov"])}
    if tag == "rdone":
        return {"e": "RDone", "r": int(d["r"]), "g": int(d["g"])}
    raise vlib.ToolError("replay_bits: unexpected output line: " + line)


def run_chunk(ctx, binp, exes, base, out, err):
    try:
        text = "".join(e.script(base + i) for i, e in enumerate(exes))
        r = ctx.run([binp], input=text, timeout=1500)
        if r.returncode != 0:
            tail = [l for l in (r.stdout or "").splitlines()[-40:] if l.startswith(("err", "exec"))][-3:]
            raise vlib.ToolError("replay_bits failed rc=%d: %s | %s" % (r.returncode, (r.stderr or "")[-1500:], tail))
        cur = None
        for line in r.stdout.splitlines():
            if line.startswith("exec "):
                cur = int(line.split()[1]) - base
                out[base + cur] = []
            elif line == "end":
                cur = None
            elif line.startswith("err"):
                raise vlib.ToolError("replay_bits: " + line)
            elif cur is not None:
                out[base + cur].append(parse_event(line))
    except Exception as ex:      # re-raised in the main thread
        err.append(ex)


def execute(ctx, binp, exes, jobs=8):
    """Run the executions on the real code (in parallel chunks)."""
    out = {}
    err = []
    n = len(exes)
    if n == 0:
        return
    step = max(1, (n + jobs - 1) // jobs)
    ths = []
    for base in range(0, n, step):
        t = threading.Thread(target=run_chunk, args=(ctx, binp, exes[base:base + step], base, out, err))
        t.start()
        ths.append(t)
    for t in ths:
        t.join()
    if err:
        raise err[0] if isinstance(err[0], vlib.ToolError) else vlib.ToolError("harness driver: %r" % err[0])
    for i, e in enumerate(exes):
        if i not in out or not out[i] or out[i][0]["e"] != "Reset":
            raise vlib.ToolError("replay_bits: no output for execution %d (%s)" % (i, e.source))
        e.events = out[i]


# ------------------------------------------------------------- verdict keys
def failing_step(exe, line):
    """(key, description) of the event of `exe` the specification rejected.
    The key names the operation and the situation of the cache, not the
    data."""
    evs = exe.events
    ev = evs[line - 1] if 0 < line <= len(evs) else {"e": "?"}
    puts = [c.split() for c in exe.cmds if c.startswith("put ")]
    nput = sum(1 for e in evs[:line] if e["e"] == "Put")
    cleaned = any(e["e"] == "Clean" for e in evs[:line])
    san = ""
    if ev["e"] == "San":
        san = ";" + ev.get("kind", "san")
    if ev["e"] == "Put" or (ev["e"] == "San" and not cleaned and nput < len(puts)):
        idx = nput - 1 if ev["e"] == "Put" else nput
        w = int(puts[idx][1])
        before = sum(int(p[1]) for p in puts[:idx])
        fill = "empty" if before % 32 == 0 else "partial"
        return "ubits_put;width=%d;cache-%s" % (w, fill), ev
    if ev["e"] == "Clean" or (ev["e"] == "San" and not cleaned):
        bits = sum(int(p[1]) for p in puts)
        cap = evs[0]["cap"]
        room = "short" if cap < (bits + 7) // 8 else "enough"
        return "ubits_clean;pending=%d;room-%s%s" % (bits % 32, room, san), ev
    # reader side: find the pass
    rinit = None
    gets = 0
    for e in evs[:line]:
        if e["e"] == "RInit":
            rinit = e
            gets = 0
        elif e["e"] == "Get":
            gets += 1
    if rinit is None:
        # a sanitizer report before the first event of a reader
        rcmd = [c for c in exe.cmds if c[1:4] == "get"]
        name = {"r": "ubits_get", "s": "ubuf_block_stream", "o": "ubuf_block_stream_opaque"}[rcmd[0][0]] if rcmd else "reader"
        return "%s;start%s" % (name, san), ev
    name = {"ubits": "ubits_get", "stream": "ubuf_block_stream", "opaque": "ubuf_block_stream_opaque"}[rinit["rd"]]
    seg = ""
    if rinit["rd"] == "stream":
        seg = ";segmented" if "+" in rinit["seg"] else ";one-segment"
    if ev["e"] == "Get":
        return "%s;width=%d%s" % (name, ev["w"], seg), ev
    return "%s;%s%s%s" % (name, ev["e"].lower(), seg, san), ev


def validate_pool(ctx, exes, tag, jobs=4):
    """Validate recorded executions with Ubits_Trace (several TLC runs side
    by side).  Returns the suspects [(exe, rejected line, invariants)];
    executions ended by a sanitizer report are grouped by key, see judge()."""
    clean = [e for e in exes if not any(ev["e"] == "San" for ev in e.events)]
    suspects = []
    err = []
    step = max(1, (len(clean) + jobs - 1) // jobs)

    def one(k, part):
        try:
            rej = ctx.validate_histories(TRACE[0], TRACE[1], [e.events for e in part],
                                         tag="%s%d" % (tag, k), max_reject=4)
            for idx, line, inv in rej:
                suspects.append((part[idx], line, inv))
        except Exception as ex:
            err.append(ex)
    ths = [threading.Thread(target=one, args=(k, clean[b:b + step]))
           for k, b in enumerate(range(0, len(clean), step))]
    for t in ths:
        t.start()
    for t in ths:
        t.join()
    if err:
        raise err[0] if isinstance(err[0], vlib.ToolError) else vlib.ToolError("trace validation driver: %r" % err[0])
    return suspects


def judge(ctx, bins, exes, suspects):
    """Every rejection is reproduced (harness re-run + TLC) before it is
    reported.  Executions ended by a sanitizer report: one representative
    per key is validated (the specification has no action for a San event);
    the representative is, if there is one, an execution whose values are
    also wrong when built without sanitizers."""
    sans = [e for e in exes if any(ev["e"] == "San" for ev in e.events)]
    seen = {}
    for e in sans:
        line = 1 + next(i for i, ev in enumerate(e.events) if ev["e"] == "San")
        key, _ = failing_step(e, line)
        seen.setdefault(key, []).append(e)
    ctx.extra["executions_ended_by_sanitizer"] = len(sans)
    for key, lst in seen.items():
        lst.sort(key=lambda x: len(x.cmds))
        cand = [Exe(e.cmds, e.source) for e in lst[:400]]
        execute(ctx, bins["plain"], cand, jobs=4)
        ok = [c for c in cand if not any(ev["e"] == "San" for ev in c.events)]
        rp = ctx.validate_histories(TRACE[0], TRACE[1], [c.events for c in ok], tag="plsel", max_reject=1) if ok else []
        e = lst[0]
        if rp:
            e = next(x for x in lst if x.cmds == ok[rp[0][0]].cmds)
        r = ctx.validate_histories(TRACE[0], TRACE[1], [e.events], tag="san")
        if not r:
            raise vlib.ToolError("trace specification accepted an execution with a sanitizer report")
        suspects.append((e, r[0][1], r[0][2]))
    done = set()
    for e, line, inv in suspects:
        key, _ = failing_step(e, line)
        if key in done:
            continue
        done.add(key)
        report(ctx, bins, e, line, inv)


def report(ctx, bins, e, line, inv):
    key, ev = failing_step(e, line)
    # reproduce: same script, fresh process, fresh TLC run
    again = Exe(e.cmds, e.source)
    execute(ctx, bins["asan"], [again], jobs=1)
    r2 = ctx.validate_histories(TRACE[0], TRACE[1], [again.events], tag="re")
    if not r2:
        raise vlib.ToolError("rejected execution did not reproduce (flaky harness?): %s" % e.cmds)
    # the same script without sanitizers: what the machine actually does
    plain = Exe(e.cmds, e.source)
    execute(ctx, bins["plain"], [plain], jobs=1)
    rp = ctx.validate_histories(TRACE[0], TRACE[1], [plain.events], tag="pl")
    effect = None
    if rp:
        pe = plain.events[rp[0][1] - 1] if rp[0][1] <= len(plain.events) else {}
        effect = {"rejected_event": rp[0][1], "event": pe}
    what = "%s: event %d %s of the real code is rejected by Ubits_Trace%s (script: %s)" % (
        key, line, json.dumps(ev), (" invariants " + ",".join(inv)) if inv else "", "; ".join(e.cmds[:12]))
    if effect:
        what += " | without sanitizers the specification rejects event %d %s" % (
            effect["rejected_event"], json.dumps(effect["event"]))
    else:
        what += " | without sanitizers the produced values happen to be accepted (undefined behaviour only)"
    ctx.violation(key, what, {"script": e.cmds, "source": e.source, "events": e.events,
                              "rejected_line": line, "plain_build": plain.events if effect else None})


# ------------------------------------------------------- spec -> code compare
def lockstep(e):
    """Textual comparison of what TLC predicted (mode E, abstract part) with
    what the real code printed.  Returns None or the first difference."""
    b = e.pred
    evs = e.events
    if any(ev["e"] == "San" for ev in evs):
        return "sanitizer report"
    cl = [ev for ev in evs if ev["e"] == "Clean"]
    if len(cl) != 1:
        return "no clean event"
    cl = cl[0]
    if cl["r"] != b["nospc"]:
        return "clean result %d, predicted %d" % (cl["r"], b["nospc"])
    if b["nospc"]:
        return None
    if cl["end"] != b["end"]:
        return "end %d, predicted %d" % (cl["end"], b["end"])
    got, want = list(cl["all"]), list(b["bytes"])
    pad = (8 - b["nbits"] % 8) % 8
    if pad and got and want and len(got) == len(want):     # padding bits are not predicted
        got[-1] &= 0xFF ^ ((1 << pad) - 1)
        want[-1] &= 0xFF ^ ((1 << pad) - 1)
    if got != want:
        return "octets %s, predicted %s" % (got, want)
    want_reads = [[hi, lo, ov] for hi, lo, ov in b["reads"]]
    passes = []
    for ev in evs:
        if ev["e"] == "RInit":
            passes.append((ev, []))
        elif ev["e"] == "Get":
            passes[-1][1].append(ev)
    if not passes:
        return "no read pass"
    for ri, gets in passes:
        if not ri["ok"]:
            if b["end"] == 0 and ri["rd"] == "stream":
                continue
            return "reader %s refused to start" % ri["rd"]
        got = [[g["hi"], g["lo"], g["ov"]] for g in gets[:len(want_reads)]]
        if got != want_reads:
            return "%s read back %s, predicted %s" % (ri["rd"], got, want_reads)
        if len(gets) != len(want_reads) + 1 or gets[-1]["ov"] != b["past"]:
            return "%s: reading past the end: overflow flag not as predicted" % ri["rd"]
    return None


# -------------------------------------------------------------------- models
def run_models(ctx, jobs):
    """jobs: list of dicts(cfg=, kind='pos'|'neg'|'beh', workers=, coverage=[...]).
    TLC runs are started concurrently; results are handled in the main thread."""
    res = {}
    err = []

    def one(j):
        try:
            res[j["cfg"]] = ctx.tlc("Ubits", "MCUbits_%s.cfg" % j["cfg"], workers=j.get("workers", 2),
                                    coverage=bool(j.get("coverage")), heap=j.get("heap", "4g"),
                                    timeout=j.get("timeout", 600), count=False, name=j["cfg"],
                                    simulate=j.get("simulate"), depth=j.get("depth"))
        except Exception as ex:
            err.append(ex)
    ths = [threading.Thread(target=one, args=(j,)) for j in jobs]
    for t in ths:
        t.start()
    for t in ths:
        t.join()
    if err:
        raise err[0] if isinstance(err[0], vlib.ToolError) else vlib.ToolError("TLC driver: %r" % err[0])
    return res


def fields_of_counterexample(res):
    v = res.last_value("fields") or ""
    out = []
    for k, w in re.findall(r'k \|-> "(\w+)", w \|-> (\d+)', v):
        w = int(w)
        pat = {"ones": 0xFFFFFFFF, "alt": 0xAAAAAAAA, "one": 1}.get(k, 0)
        out.append((w, pat & ((1 << w) - 1)))
    return out


def run(ctx):
    quick = ctx.quick
    bins = {}
    side = {"err": [], "exes": [], "suspects": []}

    def build(name, san):
        try:
            bins[name] = ctx.cc("replay_bits_" + name, SRCS, san=san)
        except Exception as ex:
            side["err"].append(ex)

    def code_to_spec():
        """3. code -> spec (runs while TLC works on the models)."""
        try:
            bt = [threading.Thread(target=build, args=("asan", "asan")),
                  threading.Thread(target=build, args=("plain", None))]
            for t in bt:
                t.start()
            exes = directed(quick)
            rng = vlib.Rng(ctx.seed)
            exes += [random_exe(rng, quick) for _ in range(500 if quick else 30000)]
            for t in bt:
                t.join()
            if side["err"]:
                return
            execute(ctx, bins["asan"], exes, jobs=8)
            side["exes"] = exes
            side["suspects"] = validate_pool(ctx, exes, "cs", jobs=(4 if quick else 8))
        except Exception as ex:
            side["err"].append(ex)
    cs = threading.Thread(target=code_to_spec)
    cs.start()

    # ---- 1. model checking
    WCOV = ["PutCache", "PutOvf", "PutFlush", "CleanOk", "CleanNospc"]
    RCOV = ["GReadOk", "GReadOvf", "SBegin", "SFillData", "SFillPastEnd", "SShowSkip", "REnd"]
    pos = [dict(cfg="w3", workers=3, coverage=WCOV),
           dict(cfg="r3", workers=3, coverage=RCOV),
           dict(cfg="e2", workers=2, coverage=["Plan", "StartCap", "RStart"] + WCOV + RCOV)]
    if not quick:
        pos += [dict(cfg="w4", workers=4, timeout=1200, coverage=WCOV),
                dict(cfg="w5", workers=8, timeout=1700, heap="12g"),
                dict(cfg="r5", workers=8, timeout=1700, heap="12g"),
                dict(cfg="e3", workers=8, timeout=1700, heap="12g")]
    neg = [dict(cfg=c, workers=1) for c in ("neg_s5", "neg_clean", "neg_bound", "neg_get", "neg_seg")]
    sim = [dict(cfg="sim", workers=1, simulate=(300 if quick else 6000), depth=400)]
    try:
        res = run_models(ctx, pos + neg + sim)
    finally:
        cs.join()
    if side["err"]:
        ex = side["err"][0]
        raise ex if isinstance(ex, vlib.ToolError) else vlib.ToolError("code->spec driver: %r" % ex)
    for j in pos:
        r = res[j["cfg"]]
        ctx.model_must_hold(r, "Ubits/" + j["cfg"])
        if j.get("coverage"):
            ctx.require_coverage(r, j["coverage"])
        ctx.states += r.distinct
        ctx.transitions += r.generated
    ctx.model_must_hold(res["sim"], "Ubits/sim")
    ctx.exhaustive = True
    exes = []
    for j in neg:
        r = res[j["cfg"]]
        if not r.violated:
            raise vlib.ToolError("vacuity: negative configuration %s not rejected by TLC" % j["cfg"])
        ctx.extra.setdefault("negative_configurations", {})[j["cfg"]] = r.violated
        # counterexamples of the writer variants are directed tests for the code
        if j["cfg"] in ("neg_s5", "neg_clean", "neg_bound"):
            f = fields_of_counterexample(r)
            cap = (r.last_seq("cap") or [0])[0]
            if f:
                need = total_octets(f)
                exes.append(Exe(writer_cmds(cap, f) + read_cmds(need, [w for w, _ in f], quick),
                                "counterexample of model variant " + j["cfg"]))
    # ---- 2. spec -> code
    behs = res["e2"].beh() + ([] if quick else res["e3"].beh())
    seen = set()
    nbeh = 0
    for b, src in [(b, "TLC BFS") for b in behs] + [(b, "TLC simulation") for b in res["sim"].beh()]:
        k = json.dumps(b, sort_keys=True)
        if k in seen:
            continue
        seen.add(k)
        exes.append(beh_exe(b, quick, src))
        nbeh += 1
    if nbeh == 0:
        raise vlib.ToolError("TLC emitted no behaviour")
    execute(ctx, bins["asan"], exes, jobs=8)
    suspects = side["suspects"] + validate_pool(ctx, exes, "sc", jobs=(4 if quick else 8))
    diffs = []
    for e in exes:
        if e.pred is not None:
            d = lockstep(e)
            if d:
                diffs.append({"script": e.cmds, "difference": d})
    allx = side["exes"] + exes
    ctx.evaluations += len(allx)
    ctx.extra["model_behaviours_replayed"] = nbeh
    ctx.extra["behaviours_differing_from_prediction"] = len(diffs)
    if diffs:
        ctx.extra["first_difference"] = diffs[0]
    ctx.extra["executions_on_real_code"] = len(allx)
    ctx.extra["events_validated"] = sum(len(e.events) for e in allx)
    ctx.extra["segmentations_read"] = sum(ev.get("nseg", 0) for e in allx for ev in e.events if ev["e"] == "RInit")
    for e in exes:
        if e.source.startswith("TLC") and len(e.events) > 8:
            ctx.sample({"source": e.source, "script": e.cmds, "predicted": e.pred, "events": e.events[:12]}, limit=2)
            break
    for e in side["exes"]:
        if e.source == "random" and 8 < len(e.events) < 80:
            ctx.sample({"source": "random seed=%d" % ctx.seed, "script": e.cmds[:6], "events": e.events[:10]}, limit=3)
            break
    judge(ctx, bins, allx, suspects)
    # a difference with the prediction that the trace specification accepts is
    # not a violation (e.g. other padding bits); it is recorded
    if diffs and not ctx.violations and not ctx.known_hits:
        ctx.extra["model_drift"] = True
        ctx.notes.append("real code differs from the detailed model's prediction without violating the abstract specification")
    ctx.assumptions += [
        "caller contracts respected: ubits_put(nb, value) with 1 <= nb <= 32 and value < 2^nb; at most 24 bits requested from ubuf_block_stream_fill_bits/show_bits at once (wider fields read in two parts), skip_bits(nb) with nb <= available",
        "the value of the padding bits written by ubits_clean and anything done after an overflow indication (other than staying inside the buffer) are not constrained",
        "reader input: the octets produced by the real writer (any field layout may be read back with other widths, truncated sizes and bit offsets); the corrupt-input sentences of other properties do not apply to these readers",
    ]
    ctx.trusted += ["TLC", "harness/replay_bits.c (command interpreter, guard zones)", "gcc AddressSanitizer / UndefinedBehaviorSanitizer"]


def replay(ctx, rp):
    """bin/check C18 --replay file: re-run the stored script."""
    bins = {"asan": ctx.cc("replay_bits_asan", SRCS, san="asan")}
    e = Exe(rp["replay"]["script"], "replay")
    execute(ctx, bins["asan"], [e], jobs=1)
    r = ctx.validate_histories(TRACE[0], TRACE[1], [e.events], tag="replay")
    if r:
        print("VIOLATION property=C18 replay reproduced: event %d %s" % (r[0][1], json.dumps(e.events[r[0][1] - 1])))
        return 1
    print("OK property=C18 replay accepted")
    return 0
