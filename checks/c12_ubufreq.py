"""C12, third stage: the requester's end of a buffer manager request (include/upipe/upipe_helper_ubuf_mgr.h).
Called from checks/c12.py.

spec/UbufMgrReq.tla (exhaustive: 2 managers x 3 flow formats, 7 calls; the variant that judges "the same answer"
on the manager alone must be rejected) states that after every answer the requester holds exactly the pair
(manager, flow format) it was last given and that its check call-back ran for every answer that differs from
what it held.  harness/replay_ubufreq.c is a pipe made of UPIPE_HELPER_UBUF_MGR only; directed and seeded random
sequences of require / provide are validated by spec/UbufMgrReq_Trace.tla."""
import json
import vlib

SRC = ["replay_ubufreq.c", "lib/upipe/uprobe.c", "lib/upipe/umem_alloc.c", "lib/upipe/udict_inline.c", "lib/upipe/uref_std.c",
       "lib/upipe/ubuf_block_mem.c", "lib/upipe/ubuf_mem_common.c"]
ENV = {"ASAN_OPTIONS": "detect_leaks=1:abort_on_error=0:exitcode=97",
       "UBSAN_OPTIONS": "print_stacktrace=1:halt_on_error=1:exitcode=98"}
DIRECTED = [
    # the output is connected, then replaced three times: the same manager comes back for other flow formats
    ["require 0", "provide 0 0", "provide 0 1", "provide 0 2", "provide 0 0", "provide 0 0", "provide 1 0", "provide 0 0"],
    ["require 1", "provide 1 1", "require 1", "provide 1 1", "provide 1 2", "require 0", "provide 1 2", "provide 2 2"],
    ["require 0", "require 1", "provide 0 1", "provide 1 1", "provide 1 0", "provide 0 0", "provide 0 3"],
]


def gen(rng, n):
    out = ["require %d" % rng.below(4)]
    for _ in range(n):
        if rng.chance(1, 6):
            out.append("require %d" % rng.below(4))
        else:
            out.append("provide %d %d" % (rng.below(3) if rng.chance(1, 2) else 0, rng.below(4)))
    return out


def execute(ctx, binp, scripts, timeout=300):
    text = "".join("exec %d\n%s\n" % (i, "\n".join(s)) for i, s in enumerate(scripts))
    r = ctx.run([binp], input=text, timeout=timeout, env=ENV)
    hs = []
    for line in r.stdout.splitlines():
        if not line.startswith("{"):
            continue
        e = json.loads(line)
        if e["e"] == "Reset":
            hs.append([e])
        elif hs:
            hs[-1].append(e)
    return r, hs


def run_part(ctx):
    res = ctx.tlc("UbufMgrReq", "MCUbufMgrReq.cfg", workers=2, coverage=True)
    ctx.model_must_hold(res, "UbufMgrReq")
    ctx.require_coverage(res, ["ActRequire", "ActProvide"])
    res = ctx.tlc("UbufMgrReq", "MCUbufMgrReq_neg_mgr_only.cfg", workers=1, count=False)
    if "Holds" not in res.violated:
        raise vlib.ToolError("vacuity: the variant that compares the manager only is not rejected (%s)" % res.violated)
    binp = ctx.cc("replay_ubufreq", SRC)
    rng = vlib.Rng(ctx.seed + 1213)
    scripts = [list(s) for s in DIRECTED] + [gen(rng, 4 + rng.below(20)) for _ in range(300 if ctx.quick else 20000)]
    r, hs = execute(ctx, binp, scripts)
    if r.returncode != 0 or len(hs) != len(scripts):
        raise vlib.ToolError("replay_ubufreq rc=%d, %d executions for %d scripts: %s"
                             % (r.returncode, len(hs), len(scripts), (r.stderr or "")[-600:]))
    # counted on the commands: the same manager offered with another flow format than the answer before
    again = 0
    for s in scripts:
        prev = None
        for c in s:
            t = c.split()
            if t[0] == "provide":
                if prev is not None and prev[0] == t[1] and prev[1] != t[2]:
                    again += 1
                prev = (t[1], t[2])
            else:
                prev = None
    if not again:
        raise vlib.ToolError("vacuity: no script answers with the same manager and another flow format")
    ctx.extra["ubuf_mgr_requester"] = {"executions": len(hs), "events": sum(len(h) for h in hs),
                                       "answers_with_the_same_manager_and_another_flow_format": again}
    # vacuity of the validation: an execution whose check call-back is removed from one answer must be rejected
    fake = None
    for h in hs:
        for k, a in enumerate(h):
            if a["e"] == "Provide" and a["evs"]:
                fake = [dict(x) for x in h]
                fake[k]["evs"] = []
                break
        if fake:
            break
    rej = ctx.validate_histories_1pass("UbufMgrReq_Trace", "UbufMgrReq_Trace.cfg", hs + ([fake] if fake else []), tag="ubufreq")
    if fake:
        ctx.traces -= 1
        if not any(i == len(hs) for i, _, _ in rej):
            raise vlib.ToolError("vacuity: an execution with one check call-back removed was accepted by UbufMgrReq_Trace")
    ctx.evaluations += sum(len(h) for h in hs)
    seen = set()
    for idx, line, inv in sorted(rej, key=lambda x: len(scripts[x[0]]) if x[0] < len(scripts) else 0):
        if idx == len(hs):
            continue
        h = hs[idx]
        ev = h[line - 1] if 0 < line <= len(h) else {}
        key = "ubuf_mgr_requester;%s;%s" % (ev.get("e", "?"), "answer-ignored" if ev.get("e") == "Provide" and not ev.get("evs") else "events")
        if key in seen:
            continue
        seen.add(key)
        r2, h2 = execute(ctx, binp, [scripts[idx]], timeout=60)
        if not h2 or not ctx.validate_histories_1pass("UbufMgrReq_Trace", "UbufMgrReq_Trace.cfg", [h2[0]], tag="ubufreqre"):
            raise vlib.ToolError("rejected execution did not reproduce: %s" % "; ".join(scripts[idx]))
        ctx.traces -= 1
        ctx.violation(key, "a pipe made of UPIPE_HELPER_UBUF_MGR: at command %d (%s) of [%s] the requester saw %s and holds "
                      "(%s, %s), which is not what UbufMgrReq allows (the requester holds the pair it was last given; its "
                      "check call-back runs for every answer that differs from what it held)"
                      % (line - 1, " ".join(str(ev.get(k)) for k in ("e", "m", "f")), "; ".join(scripts[idx]),
                         json.dumps(ev.get("evs")), ev.get("hm"), ev.get("hf")),
                      {"stage": "ubufreq", "script": list(scripts[idx]), "trace": h})


def replay(ctx, rp):
    binp = ctx.cc("replay_ubufreq", SRC)
    r, hs = execute(ctx, binp, [rp["script"]], timeout=60)
    rej = ctx.validate_histories_1pass("UbufMgrReq_Trace", "UbufMgrReq_Trace.cfg", [hs[0]], tag="ubufreqrp") if hs else [1]
    print("VIOLATION property=C12 replay reproduced" if rej else "replay: accepted")
    return 1 if rej else 0
