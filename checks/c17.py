"""C17 - H.264/H.265 NAL handling is lossless and independent of chunking
(stage 1: conversion between encapsulations, stored NAL offsets, exp-Golomb
and emulation-prevention decoding; stage 2: the H.264 framer on Annex B
input, with a clean-room shim of bitstream/mpeg/h264.h; the H.265 framer is
NOT decided, see manifest.d/C17.json).

1. TLC checks spec/Nal.tla (abstract Ser / Parse / Convert with PayloadsKept,
   RoundTrip, OverflowErr; detailed transcription of the loop of
   upipe_h26xf_convert_frame checked against it: Refines, ErrAgree, NoTrap)
   and spec/NalBits.tla (reference exp-Golomb / emulation-prevention encoders
   and decoders: CodecInverse, EscInverse; detailed transcription of
   upipe_h26xf_stream_get / _ue / _se: ReadOK, OvSound, NoUB) exhaustively
   for small bounds with a coverage guard, and must reject the negative
   variants (among them "s11": the loop as found in the tree).
2. spec -> code: every behaviour TLC emits (frame made by Ser, chain of
   conversions, predicted result / octets / stored offsets / NAL units after
   every step; encoded fields and predicted read-back) and the
   counterexamples of the negative variants are executed by
   harness/replay_nal.c on the real code (ASan + UBSan, segmented ubufs) and
   compared textually.
3. code -> spec: directed and seeded random executions (frames of 1-6 NAL
   units, sizes around the 255/256 and 65535/65536 boundaries, 3- and
   4-octet start codes, random segmentations, chains of conversions with
   observations interleaved; random field lists and arbitrary octet strings
   read through every segmentation; arbitrary octets / offsets given to
   convert_frame) are recorded and validated by spec/Nal_Trace.tla.
4. stage 2: TLC checks spec/NalScan.tla (transcription of
   upipe_framers_mpeg_scan and of the bookkeeping of upipe_h264f_find /
   work_annexb over ALL cuttings of short strings against the abstract
   start-code positions); every scan call of the model is repeated on the
   real function; elementary streams written by a reference bit-writer are
   fed to the real framer (harness/replay_nal_h264f.c) under many cuttings
   and the recorded executions are validated by Nal_Trace.tla (every output
   is the next access unit with NAL offsets delimiting its NAL units,
   nothing missing at release, no error event); corrupt streams under
   ASan + UBSan.
A violation is reported only for an execution of the real code that the
trace specification rejects twice (re-run before reporting).
"""
import json, os, re, threading
import vlib

LEVEL = "model_checking"
SRCS = ["replay_nal.c", "lib/upipe-framers/upipe_h26x_common.c",
        "lib/upipe/ubuf_block_mem.c", "lib/upipe/ubuf_mem_common.c", "lib/upipe/umem_alloc.c",
        "lib/upipe/uref_std.c", "lib/upipe/udict_inline.c"]
TRACE = ("Nal_Trace", "Nal_Trace.cfg")
ENCS = ["len4", "len2", "len1", "annexb", "nalu"]     # order used to choose minimal failing chains
MAXPAY = {"len1": 255, "len2": 65535}
M = 251


# ----------------------------------------------------------------- octet runs
def pat(k):
    return (k * 53 + 17) % M


def runs_str(pairs):
    if not pairs:
        return "-"
    return ",".join(("%x*%d" % (b, n)) if n > 1 else ("%x" % b) for b, n in pairs)


def str_runs(s):
    if s == "-" or s == "":
        return []
    out = []
    for t in s.split(","):
        b, _, n = t.partition("*")
        out.append([int(b, 16), int(n) if n else 1])
    return out


def int_list(s):
    return [] if s in ("-", "") else [int(x) for x in s.split(",")]


def prefix(enc, size, sc):
    if enc == "annexb":
        return [0, 0, 1] if sc == 3 else [0, 0, 0, 1]
    if enc == "nalu":
        return []
    w = int(enc[3])
    return [(size >> (8 * (w - 1 - i))) & 255 for i in range(w)]


def serialise(enc, nals):
    """Generator side (its output is checked by the trace specification at
    the Reset event): octets as runs and NAL offsets."""
    pairs, offs, pos = [], [], 0
    for idx, (k, size, sc) in enumerate(nals):
        if idx:
            offs.append(pos)
        pre = prefix(enc, size, sc)
        pairs += [[b, 1] for b in pre]
        if size:
            pairs.append([pat(k), size])
        pos += len(pre) + size
    return pairs, offs, pos


# ------------------------------------------------------------ rbsp generator
def ue_bits(v):
    x = v + 1
    n = x.bit_length()
    return [0] * (n - 1) + [(x >> (n - 1 - i)) & 1 for i in range(n)]


def field_bits(f):
    if f[0] == "u":
        return [(f[2] >> (f[1] - 1 - i)) & 1 for i in range(f[1])]
    if f[0] == "ue":
        return ue_bits(f[1])
    v = f[1]
    return ue_bits(2 * v - 1 if v > 0 else -2 * v)


def encode_rbsp(fields):
    """Generator side (checked by the trace specification against the
    reference encoder when the Reset event says hasf = 1)."""
    bits = []
    for f in fields:
        bits += field_bits(f)
    bits.append(1)
    bits += [0] * ((8 - len(bits) % 8) % 8)
    raw = [int("".join(map(str, bits[i:i + 8])), 2) for i in range(0, len(bits), 8)]
    out, z = [], 0
    for b in raw:
        if z >= 2 and b <= 3:
            out.append(3)
            z = 0
        out.append(b)
        z = z + 1 if b == 0 else 0
    return out


def field_event(f):
    if f[0] == "u":
        return ["u", f[1], 0, f[2] >> 16, f[2] & 0xFFFF]
    if f[0] == "ue":
        return ["ue", 0, 0, f[1] >> 16, f[1] & 0xFFFF]
    m = abs(f[1])
    return ["se", 0, 1 if f[1] < 0 else 0, m >> 16, m & 0xFFFF]


def field_op(f):
    return "u%d" % f[1] if f[0] == "u" else f[0]


# ------------------------------------------------------------------ scripts
class Exe:
    """One execution: the commands sent to the harness, what the generator
    claims about its input (meta) and, after the run, the events."""
    def __init__(self, cmds, source, meta, pred=None):
        self.cmds = cmds
        self.source = source
        self.meta = meta          # {"k": "frame"|"raw"|"rbsp", ...}
        self.pred = pred          # behaviour predicted by TLC (spec -> code)
        self.events = None

    def script(self, i):
        return "exec %d\n%s\nend\n" % (i, "\n".join(self.cmds))

    def chain(self):
        return [c.split()[2] if c.startswith("conv ") else "+nal" for c in self.cmds
                if c.startswith("conv ") or c.startswith("prepend ")]

    def store(self):
        return {"script": self.cmds, "source": self.source, "meta": self.meta}


def seg_str(segs):
    return "+".join(str(s) for s in segs) if segs else "-"


def rand_cuts(rng, size, maxseg=6):
    if size <= 1 or rng.chance(1, 4):
        return []
    n = 1 + rng.below(maxseg)
    cuts = sorted(set(1 + rng.below(size - 1) for _ in range(n)))
    segs, last = [], 0
    for c in cuts:
        segs.append(c - last)
        last = c
    segs.append(size - last)
    if rng.chance(1, 8):
        segs.insert(rng.below(len(segs) + 1), 0)       # an empty segment
    return segs


def frame_exe(enc, nals, chain, seg, source, observe):
    """observe(i) -> list of observation commands after conversion i
    (i = -1: before the first one); a full audit closes the execution."""
    pairs, offs, size = serialise(enc, nals)
    cmds = ["frame %s %s %s" % (runs_str(pairs), ",".join(map(str, offs)) or "-", seg_str(seg))]
    cmds += observe(-1)
    cur = enc
    preps = []
    for i, to in enumerate(chain):
        if isinstance(to, tuple):                   # ("prepend", (id, size, sc))
            nal = to[1]
            unit, _, _ = serialise(cur, [nal])
            cmds.append("prepend %s" % runs_str(unit))
            preps.append({"nal": list(nal), "unit": unit})
        else:
            cmds.append("conv %s %s" % (cur, to))
            cur = to
        cmds += observe(i)
    cmds += ["bytes", "iter", "offs"]
    return Exe(cmds, source, {"k": "frame", "enc": enc, "nals": [list(n) for n in nals], "preps": preps})


def audit_all(i):
    return ["bytes", "iter", "offs"]


def audit_none(i):
    return []


def representable(enc, nals):
    return all(s <= MAXPAY.get(enc, 1 << 31) for _, s, _ in nals)


def directed_frames(quick):
    """Fixed list (independent of the seed): every chain of <= 2 conversions
    (and the returns to the first encapsulation after 2) on a two-NAL frame,
    in the order of ENCS - the minimal failing chains are chosen here."""
    out = []
    nals = [(1, 2, 4), (2, 3, 4)]
    for e0 in ENCS:
        size0 = serialise(e0, nals)[2]
        for e1 in ENCS:
            if e1 == e0:
                continue
            out.append(frame_exe(e0, nals, [e1], [], "directed", audit_none))
            for e2 in ENCS:
                if e2 == e1:
                    continue
                out.append(frame_exe(e0, nals, [e1, e2], [], "directed", audit_none))
                if e2 != e0:
                    out.append(frame_exe(e0, nals, [e1, e2, e0], [3, size0 - 3], "directed", audit_none))
    # uref_h26x_prepend_nal before / between / after conversions
    for e0 in ENCS:
        nals = [(1, 2, 4), (2, 3, 4)]
        pre = ("prepend", (7, 3, 3 if e0 == "annexb" else 4))
        for e1 in ENCS:
            if e1 != e0:
                out.append(frame_exe(e0, nals, [pre, e1], [], "directed prepend", audit_none))
                out.append(frame_exe(e0, nals, [e1, ("prepend", (8, 1, 4)), e0], [], "directed prepend", audit_all))
    # every segmentation of a short frame (prefixes and payloads cut anywhere)
    for e0, chain in (("len2", ["len4", "len2"]), ("annexb", ["len1", "annexb"])) if quick else \
            (("len2", ["len4", "len2"]), ("annexb", ["len1", "annexb"]), ("len4", ["nalu", "len4"]),
             ("len1", ["annexb", "len2"]), ("nalu", ["len2", "len4"])):
        nals = {"annexb": [(1, 1, 3), (2, 1, 4)], "len4": [(1, 1, 4), (2, 1, 4)]}.get(e0, [(1, 2, 4), (2, 3, 4)])
        _, _, size = serialise(e0, nals)
        for m in range(1 << (size - 1)):
            segs, last = [], 0
            for c in range(1, size):
                if m & (1 << (c - 1)):
                    segs.append(c - last)
                    last = c
            segs.append(size - last)
            out.append(frame_exe(e0, nals, chain, segs if len(segs) > 1 else [], "directed segmentation",
                                 audit_all if m % 2 else audit_none))
    # 3-octet start codes, one NAL, three NALs, boundaries of the prefixes
    for nals in ([(1, 1, 3)], [(1, 5, 3), (2, 1, 4), (3, 2, 3)], [(1, 255, 4), (2, 256, 4)],
                 [(1, 256, 3), (2, 255, 3)], [(1, 65535, 4), (2, 7, 4)], [(1, 9, 4), (2, 65536, 4)],
                 [(1, 65537, 4)], [(1, 300, 4), (2, 70000, 4), (3, 1, 4)]):
        for e0 in ENCS:
            if not representable(e0, nals):
                continue
            if e0 != "annexb" and any(sc == 3 for _, _, sc in nals):
                continue
            size0 = serialise(e0, nals)[2]
            for e1 in ENCS:
                if e1 != e0:
                    out.append(frame_exe(e0, nals, [e1, e0], [], "directed", audit_none))
                    out.append(frame_exe(e0, nals, [e1], [1, 2, size0 - 3] if size0 > 3 else [], "directed", audit_all))
    return out


def rand_size(rng):
    c = rng.below(20)
    if c == 0:
        return 0
    if c < 9:
        return 1 + rng.below(40)
    if c < 12:
        return 1 + rng.below(600)
    if c < 16:
        return 250 + rng.below(12)
    if c < 18:
        return 65530 + rng.below(12)
    return 65536 + rng.below(4500)


def random_frame_exe(rng, quick):
    n = 1 + rng.below(6 if not rng.chance(1, 3) else 3)
    nals = []
    big = 0
    for i in range(n):
        s = rand_size(rng)
        if s > 1000:
            big += 1
            if big > 2:
                s = 1 + rng.below(300)
        nals.append((i + 1, s, 3 if rng.chance(1, 3) else 4))
    encs = [e for e in ENCS if representable(e, nals)]
    if any(s == 0 for _, s, _ in nals) and rng.chance(3, 4):
        encs = [e for e in encs if e != "nalu"]
    enc = rng.choice(encs)
    if enc != "annexb":
        nals = [(k, s, 4) for k, s, _ in nals]
    chain = [rng.choice(ENCS) for _ in range(1 + rng.below(4))]
    if rng.chance(1, 2) and len(chain) >= 2:
        chain[-1] = enc                              # come back
    if rng.chance(1, 3):
        # uref_h26x_prepend_nal somewhere in the chain (the unit is written in
        # the encapsulation the frame has at that point; small enough for any prefix)
        at = rng.below(len(chain) + 1)
        chain.insert(at, ("prepend", (7 + rng.below(3), 1 + rng.below(rng.choice([6, 250])),
                                      3 if rng.chance(1, 3) else 4)))
    _, _, size = serialise(enc, nals)
    seg = rand_cuts(rng, size)
    obs = [["bytes"], ["iter"], ["offs"], [], [], ["iter", "bytes"], ["bytes", "offs", "iter"]]

    def observe(i):
        return list(rng.choice(obs))
    return frame_exe(enc, nals, chain, seg, "random", observe)


def raw_exe(rng):
    """Arbitrary octets / offsets / claimed encapsulation: nothing is
    required of the results, but no access outside the buffers."""
    c = rng.below(3)
    if c == 0:
        # a valid frame, wrong claims
        nals = [(i + 1, 1 + rng.below(8), rng.choice([3, 4])) for i in range(1 + rng.below(4))]
        enc = rng.choice(ENCS)
        pairs, offs, size = serialise(enc, nals)
        if rng.chance(1, 2) and offs:
            offs[rng.below(len(offs))] += rng.choice([-3, -1, 1, 2, 5, 1000])
            offs = [max(0, o) for o in offs]
    else:
        size = rng.below(24)
        alpha = [0, 0, 0, 1, 1, 2, 3, 4, 255, 0x80]
        pairs = [[rng.choice(alpha), 1] for _ in range(size)]
        offs = sorted(rng.below(size + 6) for _ in range(rng.below(4)))
        if rng.chance(1, 4):
            rngl = list(offs)
            rngl.reverse()
            offs = rngl
    cmds = ["frame %s %s %s" % (runs_str(pairs), ",".join(map(str, offs)) or "-", seg_str(rand_cuts(rng, size)))]
    for _ in range(1 + rng.below(3)):
        cmds.append("conv %s %s" % (rng.choice(ENCS), rng.choice(ENCS)))
        if rng.chance(1, 2):
            cmds.append(rng.choice(["bytes", "iter", "offs"]))
    cmds += ["bytes", "iter", "offs"]
    return Exe(cmds, "random raw", {"k": "raw", "enc": "none"})


def seg_mode(size, quick):
    if size <= (9 if quick else 12):
        return "all"
    if size <= (24 if quick else 48):
        return "le2"
    return None


def rbsp_exe(fields, source, quick, rng=None, extra_ops=(), pred=None):
    data = encode_rbsp(fields)
    ops = [field_op(f) for f in fields] + list(extra_ops)
    cmds = ["rbsp %s" % ("".join("%02x" % b for b in data) or "-")]
    sm = seg_mode(len(data), quick)
    if sm:
        cmds.append("sread %s %s" % (sm, " ".join(ops)))
    if rng is not None or not sm:
        segs = rand_cuts(rng, len(data), 8) if rng is not None else []
        cmds.append("sread %s %s" % (seg_str(segs), " ".join(ops)))
    return Exe(cmds, source, {"k": "rbsp", "bytes": data, "hasf": 1,
                              "fields": [field_event(f) for f in fields]}, pred=pred)


def rand_value32(rng):
    k = rng.below(32)                       # class: k leading zeros
    lo, hi = (1 << k) - 1, (1 << (k + 1)) - 2
    c = rng.below(5)
    if c == 0:
        return lo
    if c == 1:
        return hi
    if c == 2 and k >= 16:
        return lo + (rng.next() & 0xFF)     # many zero octets after the leading one
    return lo + rng.next() % (hi - lo + 1)


def random_rbsp_exe(rng, quick):
    fields = []
    for _ in range(1 + rng.below(7)):
        c = rng.below(7)
        if c < 2:
            w = 1 + rng.below(24)
            v = rng.choice([0, 0, 1, 3, (1 << w) - 1, rng.next()]) & ((1 << w) - 1)
            fields.append(("u", w, v))
        elif c < 5:
            fields.append(("ue", rand_value32(rng)))
        else:
            u = rand_value32(rng)
            fields.append(("se", (u + 1) // 2 if u & 1 else -(u // 2)))
    extra = [rng.choice(["u1", "u8", "ue", "se", "u24"]) for _ in range(rng.below(3))]
    return rbsp_exe(fields, "random rbsp", quick, rng, extra)


def random_bytes_exe(rng, quick):
    """Arbitrary octet strings, biased towards 00 00 03 patterns: decoding is
    still defined (Unescape, UeDecode); undecodable codes are free."""
    n = rng.below(14)
    alpha = rng.choice([[0, 1, 3, 0xFF], [0, 0, 0, 1, 2, 3, 3, 4, 0x80, 0xFF], list(range(256))])
    data = [rng.choice(alpha) for _ in range(n)]
    ops = []
    for _ in range(1 + rng.below(10)):
        c = rng.below(6)
        ops.append("u8" if c < 3 else ("u%d" % (1 + rng.below(24)) if c == 3 else ("ue" if c == 4 else "se")))
    cmds = ["rbsp %s" % ("".join("%02x" % b for b in data) or "-")]
    cmds.append("sread %s %s" % (seg_mode(n, quick) or "-", " ".join(ops)))
    cmds.append("sread %s %s" % (seg_str(rand_cuts(rng, n, 8)), " ".join(["u8"] * (n + 1))))
    return Exe(cmds, "random octets", {"k": "rbsp", "bytes": data, "hasf": 0, "fields": []})


# -------------------------------------------------------- TLC behaviours
def beh_frame_exe(b, idx, rng, source):
    """spec -> code: a behaviour of Nal.tla; the frame is the one Ser gave."""
    nals = [tuple(x) for x in b["nals"]]
    size = sum(n for _, n in b["S"])
    units = b["units"]
    mode = idx % 3
    seg = []
    if mode == 1 and len(units) > 1:
        seg = [u[1] for u in units]                   # one segment per NAL unit
    elif mode == 2:
        seg = rand_cuts(rng, size)
    cmds = ["frame %s %s %s" % (runs_str(b["S"]), ",".join(map(str, b["offs"])) or "-", seg_str(seg))]
    cur = b["enc"]
    full = (idx // 3) % 2 == 0
    for st in b["steps"]:
        cmds.append("conv %s %s" % (cur, st["to"]))
        if full:
            cmds += ["bytes", "iter", "offs"]
        cur = st["to"]
    if not full:
        cmds += ["bytes", "iter", "offs"]
    return Exe(cmds, source, {"k": "frame", "enc": b["enc"], "nals": [list(n) for n in nals]}, pred=b)


def beh_rbsp_exe(b, quick, source):
    ops = [("u%d" % r[1]) if r[0] == "u" else r[0] for r in b["reads"]]
    data = b["bytes"]
    cmds = ["rbsp %s" % ("".join("%02x" % x for x in data) or "-")]
    cmds.append("sread %s %s" % (seg_mode(len(data), quick) or "-", " ".join(ops + ["u24"])))
    return Exe(cmds, source, {"k": "rbsp", "bytes": data, "hasf": 0, "fields": []}, pred=b)


# ------------------------------------------------------------------ harness
def kv(line):
    d = {}
    for t in line.split()[1:]:
        k, _, v = t.partition("=")
        d[k] = v
    return d


def split32(v):
    return v >> 16, v & 0xFFFF


def parse_events(line, meta, nprep):
    """Events of one output line (a prepend gives the generator's Claim and
    the Prep result)."""
    if meta["k"] in ("h264", "h264raw") and not line.startswith("san "):
        evs = parse_framer_event(line, meta)
        if evs is None:
            raise vlib.ToolError("replay_nal_h264f: unexpected output line: " + line[:200])
        return evs
    if line.startswith("prep "):
        d = kv(line)
        pr = meta["preps"][nprep]
        return [{"e": "Claim", "unit": pr["unit"], "nal": pr["nal"]},
                {"e": "Prep", "r": int(d["r"]), "size": int(d["size"])}]
    return [parse_event(line, meta)]


def parse_event(line, meta):
    tag = line.split(" ", 1)[0]
    if tag == "san":
        d = json.loads(line[4:])
        d["e"] = "Abort" if d.get("kind") == "assert" else "San"
        return d
    d = kv(line)
    if tag == "frame":
        ev = {"e": "Reset", "k": meta["k"], "enc": meta["enc"], "buf": str_runs(d["b"]),
              "offs": int_list(d["l"]), "size": int(d["size"]), "nseg": int(d["nseg"])}
        if meta["k"] == "frame":
            ev["nals"] = meta["nals"]
        return ev
    if tag == "conv":
        return {"e": "Conv", "from": d["from"], "to": d["to"], "r": int(d["r"]), "size": int(d["size"])}
    if tag == "bytes":
        return {"e": "Bytes", "r": int(d["r"]), "buf": str_runs(d["b"])}
    if tag == "iter":
        return {"e": "Iter", "l": [[int(x) for x in t.split(":")] for t in d["l"].split(",")] if d["l"] != "-" else []}
    if tag == "offs":
        return {"e": "Offs", "l": int_list(d["l"])}
    if tag == "rbsp":
        return {"e": "Reset", "k": "rbsp", "bytes": meta["bytes"], "hasf": meta["hasf"], "fields": meta["fields"]}
    if tag == "rinit":
        return {"e": "SInit", "seg": d["seg"], "nseg": int(d["nseg"]), "ok": int(d["ok"])}
    if tag == "u":
        hi, lo = split32(int(d["v"], 16))
        return {"e": "U", "w": int(d["w"]), "hi": hi, "lo": lo, "ov": int(d["ov"])}
    if tag == "ue":
        hi, lo = split32(int(d["v"], 16))
        return {"e": "Ue", "hi": hi, "lo": lo, "ov": int(d["ov"])}
    if tag == "se":
        v = int(d["v"])
        hi, lo = split32(abs(v))
        return {"e": "Se", "neg": 1 if v < 0 else 0, "hi": hi, "lo": lo, "ov": int(d["ov"])}
    if tag == "rdone":
        return {"e": "SDone", "r": int(d["r"])}
    raise vlib.ToolError("replay_nal: unexpected output line: " + line[:200])


def run_chunk(ctx, binp, exes, base, out, err):
    try:
        text = "".join(e.script(base + i) for i, e in enumerate(exes))
        r = ctx.run([binp], input=text, timeout=1500)
        if r.returncode != 0:
            lines = r.stdout.splitlines()
            bad = [i for i, l in enumerate(lines) if l.startswith("err")]
            ctxt = " | ".join(lines[max(0, bad[0] - 3):bad[0] + 1]) if bad else ""
            last = [l for l in lines if l.startswith("exec ")]
            if last:
                k = int(last[-1].split()[1]) - base
                ctxt += " | script: " + "; ".join(exes[k].cmds)[:600]
            raise vlib.ToolError("replay_nal failed rc=%d: %s %s" % (r.returncode, (r.stderr or "")[-500:], ctxt))
        cur = None
        for line in r.stdout.splitlines():
            if line.startswith("exec "):
                cur = int(line.split()[1])
                out[cur] = []
            elif line == "end":
                if exes[cur - base].meta["k"] in ("h264", "h264raw") and out[cur] and \
                        out[cur][-1]["e"] not in ("San", "Abort"):
                    out[cur].append({"e": "End"})
                cur = None
            elif line.startswith("err"):
                raise vlib.ToolError("replay_nal: " + line)
            elif cur is not None:
                nprep = sum(1 for ev in out[cur] if ev["e"] == "Prep")
                out[cur] += parse_events(line, exes[cur - base].meta, nprep)
    except Exception as ex:      # re-raised in the main thread
        err.append(ex)


def execute(ctx, binp, exes, jobs=6):
    """Run the executions on the real code (in parallel chunks)."""
    out, err = {}, []
    n = len(exes)
    if n == 0:
        return
    step = max(1, (n + jobs - 1) // jobs)
    ths = []
    for base in range(0, n, step):
        t = threading.Thread(target=run_chunk, args=(ctx, binp, exes[base:base + step], base, out, err))
        t.start()
        ths.append(t)
    for t in ths:
        t.join()
    if err:
        raise err[0] if isinstance(err[0], vlib.ToolError) else vlib.ToolError("harness driver: %r" % err[0])
    for i, e in enumerate(exes):
        if i not in out or not out[i] or out[i][0]["e"] != "Reset":
            raise vlib.ToolError("replay_nal: no output for execution %d (%s): %s" % (i, e.source, e.cmds[:3]))
        e.events = out[i]


def validate(ctx, exes, tag, jobs=4):
    """Nal_Trace over the recorded executions (several TLC runs side by
    side).  Returns [(exe, rejected line in the execution)]."""
    if not exes:
        return []
    rej, err = [], []
    step = max(1, (len(exes) + jobs - 1) // jobs)

    def one(k, part):
        try:
            for idx, line, _ in ctx.validate_histories_1pass(TRACE[0], TRACE[1], [e.events for e in part],
                                                             tag="%s%d" % (tag, k)):
                rej.append((part[idx], line))
        except Exception as ex:
            err.append(ex)
    ths = [threading.Thread(target=one, args=(k, exes[b:b + step]))
           for k, b in enumerate(range(0, len(exes), step))]
    for t in ths:
        t.start()
    for t in ths:
        t.join()
    if err:
        raise err[0] if isinstance(err[0], vlib.ToolError) else vlib.ToolError("trace validation driver: %r" % err[0])
    return rej


# ------------------------------------------------------- spec -> code compare
def lockstep_frame(e):
    """Textual comparison of what TLC predicted with what the real code
    printed.  Returns None or the first difference."""
    b, evs = e.pred, e.events
    if evs[0]["buf"] != b["S"] or evs[0]["offs"] != b["offs"]:
        return "initial frame differs from Ser"
    cur = {"S": b["S"], "offs": b["offs"], "units": b["units"]}
    k = -1
    for ev in evs[1:]:
        if ev["e"] in ("San", "Abort"):
            return "crash: %s %s" % (ev.get("kind"), ev.get("msg"))
        if ev["e"] == "Conv":
            k += 1
            st = b["steps"][k]
            ok = ev["r"] == 0
            if st["r"] == "err":
                return None if not ok else "conversion %d to %s accepted, predicted refused" % (k + 1, st["to"])
            if not ok:
                return None if st["mayfail"] else "conversion %d to %s refused (%d), predicted ok" % (k + 1, st["to"], ev["r"])
            cur = st
        elif ev["e"] == "Bytes" and ev["buf"] != cur["S"]:
            return "octets after conversion %d: %s, predicted %s" % (k + 1, runs_str(ev["buf"]), runs_str(cur["S"]))
        elif ev["e"] == "Iter" and ev["l"] != cur["units"]:
            return "NAL units after conversion %d: %s, predicted %s" % (k + 1, ev["l"], cur["units"])
        elif ev["e"] == "Offs" and ev["l"] != cur["offs"]:
            return "stored offsets after conversion %d: %s, predicted %s" % (k + 1, ev["l"], cur["offs"])
    return None


def lockstep_rbsp(e):
    b, evs = e.pred, e.events
    want = [list(r) for r in b["reads"]]
    passes = []
    for ev in evs[1:]:
        if ev["e"] in ("San", "Abort"):
            return "crash: %s %s" % (ev.get("kind"), ev.get("msg"))
        if ev["e"] == "SInit":
            passes.append((ev, []))
        elif ev["e"] in ("U", "Ue", "Se"):
            passes[-1][1].append(ev)
    if not passes:
        return "no read pass"
    for ri, reads in passes:
        if not ri["ok"]:
            if not b["bytes"]:
                continue
            return "reader refused to start"
        got = [[{"U": "u", "Ue": "ue", "Se": "se"}[r["e"]], r.get("w", 0), r.get("neg", 0), r["hi"], r["lo"]]
               for r in reads[:len(want)]]
        if got != want:
            return "segmentation %s read %s, predicted %s" % (ri["seg"], got, want)
    return None


# -------------------------------------------------------------------- models
def run_models(ctx, jobs):
    """TLC runs are started concurrently (bounded); results are handled in
    the main thread."""
    res, err = {}, []
    sem = threading.Semaphore(6)

    def one(j):
        with sem:
            try:
                res[j["cfg"]] = ctx.tlc(j["mod"], "MC%s_%s.cfg" % (j["mod"], j["cfg"]), workers=j.get("workers", 1),
                                        coverage=False, heap=j.get("heap", "3g"),
                                        timeout=j.get("timeout", 600), count=False, name=j["mod"] + j["cfg"])
            except Exception as ex:
                err.append(ex)
    ths = [threading.Thread(target=one, args=(j,)) for j in jobs]
    for t in ths:
        t.start()
    for t in ths:
        t.join()
    if err:
        raise err[0] if isinstance(err[0], vlib.ToolError) else vlib.ToolError("TLC driver: %r" % err[0])
    return res


def coverage_from_acts(res):
    """Vacuity guard without -coverage: every behaviour TLC emitted carries
    the set `acts` of the actions the model took on the way (ghost variable);
    res.coverage[action] = (behaviours that took it, same)."""
    cnt = {}
    for b in res.beh():
        for a in b.get("acts", []):
            cnt[a] = cnt.get(a, 0) + 1
    for a, n in cnt.items():
        res.coverage[a] = (n, n)


NAL_COV = ["ConvIdentity", "ConvBegin", "TurnNal", "TurnEnd", "TurnFail"]
SCAN_COV = ["Chunk", "FindHit", "FindMiss", "Finish"]
BITS_G_COV = ["ReadU", "ReadUe", "ReadSe", "ReadPast"]
BITS_P_COV = ["ReadByte", "ReadPast"]


# ------------------------------------------------------------------ verdicts
def not_reproduced(ctx, e, line, again):
    """A rejected execution that is accepted when re-run.  The only source of
    non-determinism of the harnesses is the time limit per execution (a
    `hang` event on an overloaded machine): such an execution is not reported
    (DESIGN.md 2.2: a violation must reproduce) but counted; anything else
    is a tool error."""
    ev = e.events[line - 1] if 0 < line <= len(e.events) else {}
    if ev.get("e") == "San" and ev.get("kind") == "hang":
        ctx.extra["time_limits_not_reproduced"] = ctx.extra.get("time_limits_not_reproduced", 0) + 1
        ctx.notes.append("an execution hit the time limit of the harness once and ran normally when repeated (machine load): not reported")
        return
    raise vlib.ToolError("rejected execution did not reproduce (flaky harness?): script %s | rejected event %d %s | events of the re-run %s"
                         % (e.cmds[:6], line, json.dumps(ev)[:300], json.dumps(again.events[:line + 1])[:600]))


def chain_key(chain):
    return tuple(ENCS.index(c) if c in ENCS else 9 for c in chain if c is not None)


def frame_symptom(e, line):
    """(symptom, chain up to the rejected event) of a frame execution."""
    evs = e.events
    ev = evs[line - 1] if 0 < line <= len(evs) else {"e": "?"}
    chain = [x["to"] if x["e"] == "Conv" else "+nal" for x in evs[:line] if x["e"] in ("Conv", "Prep")]
    enc0 = e.meta.get("enc", "?")
    t = ev["e"]
    if t == "Claim":
        raise vlib.ToolError("generator and specification disagree on a prepended NAL unit: %s" % json.dumps(ev)[:400])
    if t == "Prep":
        sym = "prepend_nal-refused" if ev["r"] != 0 else "prepend_nal"
    elif t == "Conv":
        sym = "refused-valid-frame" if ev["r"] != 0 else "accepted-overflowing-size"
    elif t == "Bytes":
        sym = "wrong-bytes"
    elif t in ("Iter", "Offs"):
        sym = "stale-nal-offsets"
    elif t in ("Abort", "San"):
        sym = "assert" if t == "Abort" else "%s:%s" % (ev.get("kind", "san"), ev.get("where", "?"))
        # every command gives one event (two for a prepend): the command that died is the next one
        ci = line - 1 - sum(1 for x in evs[:line] if x["e"] == "Claim")
        if ci < len(e.cmds) and e.cmds[ci].startswith("conv "):
            chain.append(e.cmds[ci].split()[2])
        elif ci < len(e.cmds) and e.cmds[ci].startswith("prepend "):
            chain.append("+nal")
    else:
        sym = t.lower()
    return sym, [enc0] + chain, ev


def with_audit(e, observe):
    """The same frame and conversions with the given observations after
    every conversion."""
    cmds = [e.cmds[0]]
    for c in e.cmds[1:]:
        if c.startswith("conv ") or c.startswith("prepend "):
            cmds.append(c)
            cmds += observe
    if not observe:
        cmds += ["bytes"]
    return Exe(cmds, e.source + " (audited)", e.meta)


def judge_frames(ctx, binp, rejected):
    """rejected: [(exe, line)] of frame / raw executions.  The cause is
    named after the FIRST divergence seen when everything is observed after
    every conversion; the chain in the key is the shortest one (in the fixed
    order of ENCS) whose octets / result / crash are wrong, if there is one."""
    if not rejected:
        return
    rejected.sort(key=lambda x: (len(x[0].chain()), len(x[0].meta.get("nals", [])) or 99,
                                 chain_key([x[0].meta.get("enc")] + x[0].chain()), len(x[0].cmds)))
    # the smallest executions of every chain length (consequences need >= 2 steps)
    cand, per = [], {}
    for e, _ in rejected:
        n = min(len(e.chain()), 4)
        if per.get(n, 0) < 28:
            per[n] = per.get(n, 0) + 1
            cand.append(e)
    full = [with_audit(e, ["bytes", "iter", "offs"]) for e in cand]
    byts = [with_audit(e, ["bytes"]) for e in cand]
    execute(ctx, binp, full + byts, jobs=4)
    rj = {id(e): line for e, line in validate(ctx, full + byts, "aud", jobs=2)}
    groups = {}
    for e, fa, ba in zip(cand, full, byts):
        if id(fa) in rj:
            sym, chain, ev = frame_symptom(fa, rj[id(fa)])
            rep = fa
        else:                      # only visible with the original observations
            line = next(l for x, l in rejected if x is e)
            sym, chain, ev = frame_symptom(e, line)
            rep = e
        g = groups.setdefault(sym, {"cause": [], "effect": []})
        g["cause"].append((chain, rep, ev))
        if id(ba) in rj:
            s2, c2, ev2 = frame_symptom(ba, rj[id(ba)])
            g["effect"].append((c2, ba, ev2, s2))
    for sym, g in sorted(groups.items()):
        g["cause"].sort(key=lambda x: (len(x[0]), chain_key(x[0])))
        g["effect"].sort(key=lambda x: (len(x[0]), chain_key(x[0])))
        chain, rep, ev = g["cause"][0]
        what_eff = ""
        if g["effect"] and sym == "stale-nal-offsets":
            c2, rep2, ev2, s2 = g["effect"][0]
            what_eff = " | consequence: chain %s then gives %s (%s)" % ("->".join(c2), s2, json.dumps(ev2)[:300])
            crashes = [x for x in g["effect"] if x[3] == "assert" or ":" in x[3]]
            if crashes:
                what_eff += " | chain %s dies: %s" % ("->".join(crashes[0][0]), json.dumps(crashes[0][2])[:200])
            chain, rep = c2, rep2
        key = "h26x;convert_frame;%s;%s" % (sym, "->".join(chain))
        # reproduce: same script, fresh process, fresh TLC run
        again = Exe(rep.cmds, rep.source, rep.meta)
        execute(ctx, binp, [again], jobs=1)
        r2 = validate(ctx, [again], "re", jobs=1)
        if not r2:
            not_reproduced(ctx, rep, rj.get(id(rep), next((l for x, l in rejected if x is rep), 0)), again)
            continue
        line = r2[0][1]
        what = "%s: event %d %s of the real code is rejected by Nal_Trace (script: %s)%s" % (
            key, line, json.dumps(again.events[line - 1])[:400], "; ".join(again.cmds[:10])[:600], what_eff)
        if sym == "stale-nal-offsets":
            c0, rep0, ev0 = g["cause"][0]
            what += " | first divergence: after %s the code reports %s" % ("->".join(c0), json.dumps(ev0)[:200])
        obj = again.store()
        obj.update({"events": again.events, "rejected_line": line,
                    "executions_rejected_with_this_symptom": len(g["cause"])})
        ctx.violation(key, what, obj)


def rbsp_symptom(e, line):
    evs = e.events
    ev = evs[line - 1] if 0 < line <= len(evs) else {"e": "?"}
    data = e.meta.get("bytes", [])
    esc = any(data[i] == 0 and data[i + 1] == 0 and data[i + 2] == 3 for i in range(len(data) - 2))
    t = ev["e"]
    if t in ("San", "Abort"):
        what = "%s:%s" % (ev.get("kind", "san"), ev.get("where", "?"))
        ops = [c for c in e.cmds if c.startswith("sread")]
        nread = sum(1 for x in evs[:line] if x["e"] in ("U", "Ue", "Se"))
        return "h26x;stream;crash;%s;%s" % (what, "escaped" if esc else "plain"), ev
    name = {"U": "fill_bits", "Ue": "ue", "Se": "se", "SInit": "init", "SDone": "clean"}.get(t, t.lower())
    seg = ""
    for x in evs[:line]:
        if x["e"] == "SInit":
            seg = "segmented" if "+" in x["seg"] else "one-segment"
    return "h26x;stream;%s;%s" % (name, "escaped" if esc else "plain"), ev


def judge_rbsp(ctx, binp, rejected):
    groups = {}
    for e, line in rejected:
        key, ev = rbsp_symptom(e, line)
        groups.setdefault(key, []).append((e, line))
    for key, lst in sorted(groups.items()):
        lst.sort(key=lambda x: (len(x[0].meta.get("bytes", [])), len(x[0].cmds[-1])))
        e, line0 = lst[0]
        again = Exe(e.cmds, e.source, e.meta)
        execute(ctx, binp, [again], jobs=1)
        r2 = validate(ctx, [again], "rb", jobs=1)
        if not r2:
            not_reproduced(ctx, e, line0, again)
            continue
        line = r2[0][1]
        key2, ev = rbsp_symptom(again, line)
        what = "%s: event %d %s of the real code is rejected by Nal_Trace (octets %s; script: %s)" % (
            key2, line, json.dumps(ev)[:300], "".join("%02x" % b for b in again.meta["bytes"])[:120],
            "; ".join(again.cmds)[:400])
        obj = again.store()
        obj.update({"events": again.events, "rejected_line": line, "executions_rejected_with_this_symptom": len(lst)})
        ctx.violation(key2, what, obj)


def corrupted_copies(exes, rejected):
    """Vacuity guard of the trace specification: accepted executions with one
    recorded field altered; every one of them must be rejected."""
    bad = set(id(e) for e, _ in rejected)
    out = []

    def clone(e, i, field, fn):
        evs = json.loads(json.dumps(e.events))
        evs[i][field] = fn(evs[i][field])
        c = Exe(e.cmds, "corrupted " + evs[i]["e"] + "." + field, e.meta)
        c.events = evs
        out.append(c)
    want = {"Bytes": ("buf", lambda b: [[(b[0][0] + 1) % 256, b[0][1]]] + b[1:]),
            "Iter": ("l", lambda l: [[l[0][0], l[0][1] + 1]] + l[1:]),
            "Offs": ("l", lambda l: [l[0] + 1] + l[1:]),
            "Conv": ("r", lambda r: 6 if r == 0 else 0),
            "Ue": ("lo", lambda v: v ^ 1),
            "Se": ("neg", lambda v: 1 - v),
            "U": ("lo", lambda v: v ^ 1)}
    for e in exes:
        if id(e) in bad or e.meta["k"] == "raw" or any(ev["e"] in ("San", "Abort") for ev in e.events):
            continue
        if e.meta["k"] == "frame" and (any(n[1] == 0 for n in e.meta["nals"]) or
                                       any(ev["e"] == "Conv" and ev["r"] != 0 for ev in e.events)):
            continue
        if e.meta["k"] == "rbsp" and not e.meta["hasf"]:
            continue
        for i, ev in enumerate(e.events):
            t = ev["e"]
            if t in want and ev.get(want[t][0]) not in ([], None):
                if t in ("Ue", "Se", "U") and i - 2 >= len(e.meta["fields"]):
                    continue                     # only fields the encoder wrote (first pass)
                if t == "Se" and ev["hi"] == 0 and ev["lo"] == 0:
                    continue
                clone(e, i, want[t][0], want[t][1])
                del want[t]
                break
        if not want:
            break
    return out, sorted(want)


def judge(ctx, binp, rejected):
    for e, line in rejected:
        if line == 1:
            raise vlib.ToolError("generator and specification disagree on the input of an execution "
                                 "(Reset rejected): %s" % json.dumps(e.events[0])[:600])
    judge_frames(ctx, binp, [(e, l) for e, l in rejected if e.meta["k"] in ("frame", "raw")])
    judge_rbsp(ctx, binp, [(e, l) for e, l in rejected if e.meta["k"] == "rbsp"])



# =====================================================================
# stage 2: the H.264 framer (lib/upipe-framers/upipe_h264_framer.c with the
# clean-room shim harness/shim/bitstream/mpeg/h264.h)
# =====================================================================
H264_SRCS = ["replay_nal_h264f.c", "lib/upipe-framers/upipe_h264_framer.c",
             "lib/upipe-framers/upipe_h26x_common.c", "lib/upipe-framers/upipe_framers_common.c",
             "lib/upipe/uprobe.c", "lib/upipe/ubuf_block_mem.c", "lib/upipe/ubuf_mem_common.c",
             "lib/upipe/umem_alloc.c", "lib/upipe/uref_std.c", "lib/upipe/uref_pic_flow.c",
             "lib/upipe/udict_inline.c"]
SHIM_FLAGS = ["-I", os.path.join(vlib.HARNESS, "shim")]


class BitW:
    """Reference bit-writer of the generator (ITU-T H.264 7.3: u(n), ue(v),
    se(v), rbsp_trailing_bits)."""
    def __init__(self):
        self.b = []

    def u(self, n, v):
        self.b += [(v >> (n - 1 - i)) & 1 for i in range(n)]

    def ue(self, v):
        x = v + 1
        n = x.bit_length()
        self.b += [0] * (n - 1)
        self.u(n, x)

    def se(self, v):
        self.ue(2 * v - 1 if v > 0 else -2 * v)

    def rbsp(self):
        bits = self.b + [1]
        bits += [0] * ((8 - len(bits) % 8) % 8)
        return [int("".join(map(str, bits[i:i + 8])), 2) for i in range(0, len(bits), 8)]


def h264_nal(hdr, rbsp, sc):
    out, z = [], 0
    for b in rbsp:                       # emulation prevention (7.4.1)
        if z >= 2 and b <= 3:
            out.append(3)
            z = 0
        out.append(b)
        z = z + 1 if b == 0 else 0
    return [0] * (sc - 1) + [1] + [hdr] + out


def h264_sps(w_mbs, h_mbs, log2_fn, sc, level=30):
    """7.3.2.1.1: baseline profile, level 3 (or `level`), pic_order_cnt_type 2, frames only,
    no cropping, no VUI."""
    b = BitW()
    b.u(8, 66); b.u(8, 0xC0); b.u(8, level)
    b.ue(0); b.ue(log2_fn - 4); b.ue(2); b.ue(1); b.u(1, 0)
    b.ue(w_mbs - 1); b.ue(h_mbs - 1); b.u(1, 1); b.u(1, 1); b.u(1, 0); b.u(1, 0)
    return h264_nal(0x67, b.rbsp(), sc)


def h264_pps(sc):
    """7.3.2.2: pic_parameter_set_id 0 for seq_parameter_set_id 0, CAVLC, one slice group."""
    b = BitW()
    b.ue(0); b.ue(0); b.u(1, 0); b.u(1, 0); b.ue(0); b.ue(0); b.ue(0)
    b.u(1, 0); b.u(2, 0); b.se(0); b.se(0); b.se(0); b.u(1, 0); b.u(1, 0); b.u(1, 0)
    return h264_nal(0x68, b.rbsp(), sc)


def h264_slice(idr, frame_num, idr_pic_id, first_mb, log2_fn, payload, sc, ref=None):
    """7.3.3 up to the fields that delimit pictures (first_mb_in_slice,
    slice_type, pic_parameter_set_id, frame_num, idr_pic_id); the rest of the
    slice is opaque to a framer."""
    b = BitW()
    b.ue(first_mb); b.ue(7 if idr else 5); b.ue(0); b.u(log2_fn, frame_num % (1 << log2_fn))
    if idr:
        b.ue(idr_pic_id)
    for x in payload:
        b.u(8, x)
    # nal_ref_idc: 3 for IDR and 2 otherwise, or `ref` (1..3): the slices of one picture may carry different
    # NON-ZERO values (7.4.1: only the mix of 0 and non-0 is forbidden, 7.4.1.2.4: a new picture begins where
    # nal_ref_idc differs with ONE of the two being 0)
    r = ref if ref is not None else (3 if idr else 2)
    return h264_nal((r << 5) | (5 if idr else 1), b.rbsp(), sc)


def h264_aud(sc):
    return h264_nal(0x09, [0xF0], sc)


def h264_stream(rng, n_au=None, pre=None, lead3=False, small=False, sps_switch=False):
    """An Annex B elementary stream: every access unit starts with an access
    unit delimiter; IDR access units carry SPS and PPS; `pre` access units
    come before the first parameter sets."""
    w_mbs, h_mbs, log2_fn = 1 + rng.below(20), 1 + rng.below(12), 4 + rng.below(4)
    n_au = n_au if n_au is not None else 1 + rng.below(5)
    pre = pre if pre is not None else (rng.below(3) if rng.chance(1, 3) else 0)
    stream, aus, cfgs = [], [], []
    frame_num, idr_id = 3, 0
    # sps_switch: from a later IDR on the SPS (same id) has other contents (another level, same size) while
    # the PPS is repeated octet for octet
    level, switch_at = 30, None
    if sps_switch:
        n_au = max(n_au, 4)
        switch_at = pre + 1 + rng.below(n_au - 2)

    def payload():
        n = rng.below(4 if small else 24)
        alpha = rng.choice([[0, 0, 1, 2, 3, 0xFF], list(range(256))])
        return [rng.choice(alpha) for _ in range(n)]

    def sc():
        return 3 if rng.chance(1, 3) else 4
    for i in range(pre + n_au):
        start = len(stream)
        first = start == 0
        idr = i >= pre and (i == pre or i == switch_at or rng.chance(1, 4))
        if i == switch_at:
            level = 31
        au = h264_aud(3 if (first and lead3) else 4)
        if idr:
            au += h264_sps(w_mbs, h_mbs, log2_fn, sc(), level) + h264_pps(sc())
            frame_num = 0
            idr_id += 1
        cfgs.append(start + len(au) if idr else None)      # where the parameter sets end
        nslices = 1 + (rng.below(3) if rng.chance(1, 3) else 0)
        mixed = nslices > 1 and rng.chance(1, 2)
        for k in range(nslices):
            au += h264_slice(idr, frame_num, idr_id, 2 * k, log2_fn, payload(), sc(),
                             ref=(1 + rng.below(3)) if mixed else None)
        frame_num += 1
        stream += au
        aus.append([start, len(stream), 1 if idr else 0])
    return {"stream": stream, "aus": aus, "dims": [16 * w_mbs, 16 * h_mbs], "cfgs": cfgs}


def hexs(bs):
    return "".join("%02x" % b for b in bs) or "-"


def complete_exe(st, split, out, source):
    """The input flow is flagged flow.complete: one buffer per access unit; for the access units of `split` the
    parameter sets (delimiter, SPS, PPS) travel alone in a buffer of their own in front of the picture - a range
    that is not an access unit ([.., .., 1, 1]): the framer learns the parameter sets and outputs nothing."""
    ranges = []
    for i, (a, b, idr) in enumerate(st["aus"]):
        c = st["cfgs"][i]
        if i in split and c is not None and a < c < b:
            ranges += [[a, c, 1, 1], [c, b, 0, 0]]
        else:
            ranges.append([a, b, idr, 0])
    st2 = dict(st, aus=ranges)
    return framer_exe(st2, [r[0] for r in ranges[1:]], None, out, source, complete=True)


def framer_exe(st, cuts, rng, out, source, raw=False, defer=None, complete=False):
    """cuts: increasing offsets where the stream is cut into input buffers; defer: the sink answers the flow
    format request only after that many more inputs (a sink behind a queue), None: from inside register_request."""
    stream = st["stream"]
    cmds = (["defer %d" % defer] if defer is not None else []) + (["complete"] if complete else []) + ["new " + out]
    if defer is not None:
        source += " (flow format answered %d input(s) later)" % defer
    last = 0
    for c in list(cuts) + [len(stream)]:
        if c > last:
            piece = stream[last:c]
            seg = rand_cuts(rng, len(piece), 3) if rng is not None and rng.chance(1, 4) else []
            cmds.append("feed %s %s" % (hexs(piece), seg_str(seg)))
            last = c
    cmds.append("release")
    meta = {"k": "h264raw", "stream": stream} if raw else \
        {"k": "h264", "stream": stream, "aus": st["aus"], "dims": st["dims"], "out": out}
    return Exe(cmds, source, meta)


def framer_executions(rng, quick):
    exes = []
    # directed: one stream, every single cut and a set of double cuts; whole; octet by octet
    st = h264_stream(vlib.Rng(5), n_au=3, pre=0, small=True)
    n = len(st["stream"])
    exes.append(framer_exe(st, [], None, "annexb", "directed whole"))
    exes.append(framer_exe(st, list(range(1, n)), None, "annexb", "directed octets"))
    exes.append(framer_exe(st, [a[0] for a in st["aus"][1:]], None, "annexb", "directed per access unit"))
    for c in range(1, n):
        exes.append(framer_exe(st, [c], None, "annexb", "directed cut"))
    for c in range(1, n - 1, 3 if quick else 1):
        for d in (1, 2, 3, 5):
            if c + d < n:
                exes.append(framer_exe(st, [c, c + d], None, "annexb", "directed cuts"))
    for out in ("len4", "len2", "nalu"):
        exes.append(framer_exe(st, [], None, out, "directed whole"))
        exes.append(framer_exe(st, [a[0] for a in st["aus"][1:]], None, out, "directed per access unit"))
    # the flow format answer arrives between two halves of the framer's work: after the input returns, or later
    # (the whole stream in one buffer is the recorded finding: nothing follows the answer, see KNOWN_FINDINGS.json)
    exes.append(framer_exe(st, [], None, "annexb", "directed whole", defer=2))
    for out in ("annexb", "len4"):
        for d in (0, 1, 2):
            exes.append(framer_exe(st, [a[0] for a in st["aus"][1:]], None, out, "directed per access unit", defer=d))
            exes.append(framer_exe(st, list(range(1, n)), None, out, "directed octets", defer=d))
            for step in (3, 7, 16):
                exes.append(framer_exe(st, list(range(step, n, step)), None, out, "directed buffers of %d" % step, defer=d))
    # the input flagged complete (whole access units per buffer), the parameter sets of some pictures
    # travelling alone in front of them
    for k in range(6 if quick else 60):
        stc = h264_stream(vlib.Rng(70 + k), n_au=2 + k % 4, pre=0, small=(k % 2 == 0))
        idrs = [i for i, a in enumerate(stc["aus"]) if a[2]]
        for out in (("len4", "annexb") if k % 3 else ("len4", "len2", "nalu", "annexb")):
            exes.append(complete_exe(stc, set(), out, "directed complete input"))
            if out == "annexb":
                # (for Annex B output the framer writes a delimiter and the parameter sets in front of a key
                # picture that lacks them: what comes out is then not the octets that went in - not judged)
                continue
            exes.append(complete_exe(stc, set(idrs[:1]), out, "directed complete input, first parameter sets alone"))
            exes.append(complete_exe(stc, set(idrs), out, "directed complete input, parameter sets alone"))
    # a stream that begins with a 3-octet start code
    for k in range(2):
        stw = h264_stream(vlib.Rng(40 + k), n_au=5, pre=0, small=True, sps_switch=True)
        exes.append(framer_exe(stw, [], None, "annexb", "directed sps switch whole"))
        exes.append(framer_exe(stw, [a[0] for a in stw["aus"][1:]], None, "annexb", "directed sps switch per access unit"))
    st3 = h264_stream(vlib.Rng(6), n_au=2, pre=0, lead3=True, small=True)
    exes.append(framer_exe(st3, [], None, "annexb", "directed lead3 whole"))
    for c in range(1, min(len(st3["stream"]), 14)):
        exes.append(framer_exe(st3, [c], None, "annexb", "directed lead3 cut"))
    # random streams, several cuttings of each (the same stream must give the same access units)
    for _ in range(60 if quick else 1500):
        st = h264_stream(rng, sps_switch=rng.chance(1, 6))
        n = len(st["stream"])
        out = "annexb" if rng.chance(2, 3) else rng.choice(["len4", "len2", "nalu"])
        exes.append(framer_exe(st, [], rng, out, "random whole"))
        exes.append(framer_exe(st, [a[0] for a in st["aus"][1:]], rng, out, "random per access unit"))
        for _ in range(2):
            k = 1 + rng.below(8)
            cuts = sorted(set(1 + rng.below(n - 1) for _ in range(k)))
            exes.append(framer_exe(st, cuts, rng, out, "random cuts"))
        step = 1 + rng.below(5)
        exes.append(framer_exe(st, list(range(step, n, step)), rng, out, "random regular"))
    # arbitrary / corrupt input: only 'no sanitizer report' is required
    for _ in range(60 if quick else 2000):
        st = h264_stream(rng, sps_switch=rng.chance(1, 6))
        s2 = list(st["stream"])
        c = rng.below(4)
        if c == 0:
            for _ in range(1 + rng.below(6)):
                s2[rng.below(len(s2))] = rng.choice([0, 1, 3, 0xFF, rng.below(256)])
        elif c == 1:
            s2 = s2[:rng.below(len(s2)) + 1]
        elif c == 2:
            i = rng.below(len(s2))
            s2 = s2[:i] + [rng.choice([0, 0, 1, 0x67, 0x68, 0x65, 0x41, 9]) for _ in range(rng.below(12))] + s2[i:]
        else:
            s2 = [rng.choice([0, 0, 0, 1, 0x67, 0x68, 0x65, 0x41, 0x09, 0x06, 0xFF, rng.below(256)])
                  for _ in range(rng.below(80))] or [0]
        n = len(s2)
        cuts = sorted(set(1 + rng.below(n - 1) for _ in range(rng.below(5)))) if n > 1 else []
        exes.append(framer_exe({"stream": s2}, cuts, rng, rng.choice(["annexb", "annexb", "len4"]), "random corrupt", raw=True))
    return exes


def parse_framer_event(line, meta):
    tag = line.split(" ", 1)[0]
    d = kv(line)
    if tag == "new":
        ev = {"e": "Reset", "k": meta["k"], "stream": meta["stream"]}
        if meta["k"] == "h264":
            ev.update({"aus": meta["aus"], "dims": meta["dims"], "out": meta["out"]})
        return [ev]
    if tag == "newr":
        if d["r"] != "0":
            raise vlib.ToolError("replay_nal_h264f: the framer refused its output or flow definition")
        return []
    if tag == "feed":
        return [{"e": "Feed", "n": int(d["n"])}]
    if tag == "out":
        return [{"e": "Out", "size": int(d["size"]), "key": int(d["key"]),
                 "b": [int(d["b"][i:i + 2], 16) for i in range(0, len(d["b"]), 2)] if d["b"] != "-" else [],
                 "l": int_list(d["l"])}]
    if tag == "fd":
        return [{"e": "Fd", "def": d["def"], "hsize": int(d["hsize"]), "vsize": int(d["vsize"]), "enc": int(d["enc"])}]
    if tag == "ev":
        return [{"e": "Ev", "name": line.split()[1]}]
    if tag == "release":
        return []
    return None


def framer_symptom(e, line):
    evs = e.events
    ev = evs[line - 1] if 0 < line <= len(evs) else {"e": "?"}
    m = e.meta
    t = ev["e"]
    if t == "Out":
        units = [m["stream"][a[0]:a[1]] for a in m.get("aus", [])]
        sym = "stale-nal-offsets" if (m.get("out") == "annexb" and ev["b"] in units) else \
              ("wrong-output" if m.get("out") == "annexb" else "wrong-converted-output")
    elif t == "End":
        sym = "access-unit-missing"
    elif t == "Ev":
        sym = "error-event"
    elif t == "Fd":
        sym = "flow-definition"
    elif t in ("San", "Abort"):
        sym = "%s:%s" % (ev.get("kind", "san"), ev.get("where", "?"))
    else:
        sym = t.lower()
    # how the input was cut, relative to the access units
    pos, multi = 0, False
    starts = [a[0] for a in m.get("aus", [])]
    for x in evs[:line]:
        if x["e"] == "Feed":
            if sum(1 for s0 in starts if pos <= s0 < pos + x["n"]) >= 2:
                multi = True
            pos += x["n"]
    cut = "several-access-units-in-one-buffer" if multi else "at-most-one-access-unit-start-per-buffer"
    lead3 = ";stream-begins-with-3-octet-start-code" if m["stream"][:3] == [0, 0, 1] else ""
    # the stream begins with access units that come before the first parameter sets
    aus = m.get("aus", [])
    pre = ";after-undecodable-access-units" if aus and aus[0][2] == 0 and any(a[2] for a in aus) else ""
    if e.source.startswith("directed whole (flow format answered"):
        # the recorded finding, identified by its input: the whole stream in one buffer, the flow format answered
        # after that buffer (nothing follows the answer): the scan is not resumed - the first access unit comes
        # out cut short when the pipe is released, the others never
        return "h264f;flow-format-answered-later;whole-stream-in-one-buffer", ev
    return "h264f;%s;%s%s%s" % (sym, cut, pre, lead3), ev


def judge_framer(ctx, binp, rejected):
    groups = {}
    for e, line in rejected:
        key, ev = framer_symptom(e, line)
        groups.setdefault(key, []).append((e, line))
    reps = []
    for key, lst in sorted(groups.items()):
        lst.sort(key=lambda x: (len(x[0].meta["stream"]), len(x[0].cmds)))
        e, line0 = lst[0]
        reps.append((key, Exe(e.cmds, e.source, e.meta), len(lst), e, line0))
    if not reps:
        return
    # reproduce: same scripts, fresh process, fresh TLC run (one for all)
    execute(ctx, binp, [a for _, a, _, _, _ in reps], jobs=2)
    r2 = {id(x): line for x, line in validate(ctx, [a for _, a, _, _, _ in reps], "fr", jobs=1)}
    for key, again, n, e0, line0 in reps:
        if id(again) not in r2:
            not_reproduced(ctx, e0, line0, again)
            continue
        line = r2[id(again)]
        key2, ev = framer_symptom(again, line)
        what = "%s: event %d %s of the real framer is rejected by Nal_Trace (stream of %d octets, access units %s; script: %s)" % (
            key2, line, json.dumps(ev)[:400], len(again.meta["stream"]), again.meta.get("aus"),
            "; ".join(again.cmds)[:700])
        obj = again.store()
        obj.update({"events": again.events, "rejected_line": line, "executions_rejected_with_this_symptom": n})
        ctx.violation(key2, what, obj)


def corrupted_framer_copies(exes, rejected):
    """Vacuity guard: accepted framer executions with one octet of an output
    altered / one stored offset altered / one access unit dropped."""
    bad = set(id(e) for e, _ in rejected)
    out = []
    for e in exes:
        if id(e) in bad or e.meta["k"] != "h264" or any(ev["e"] in ("San", "Abort") for ev in e.events):
            continue
        outs = [i for i, ev in enumerate(e.events) if ev["e"] == "Out"]
        if len(outs) < 2 or not e.events[outs[0]]["l"]:
            continue
        for name, fn in (("Out.b", lambda ev: ev.__setitem__("b", [ev["b"][0] ^ 1] + ev["b"][1:])),
                         ("Out.l", lambda ev: ev.__setitem__("l", [ev["l"][0] + 1] + ev["l"][1:])),
                         ("Out dropped", None)):
            evs = json.loads(json.dumps(e.events))
            if fn is None:
                del evs[outs[-1]]
            else:
                fn(evs[outs[0]])
            c = Exe(e.cmds, "corrupted " + name, e.meta)
            c.events = evs
            out.append(c)
        break
    return out


def replay_scan(ctx, binp, behs):
    """spec -> code for NalScan.tla: every call of the start code scanner the
    model made (context, buffer) is made on the real
    upipe_framers_mpeg_scan; consumed octets and new context compared."""
    calls = []
    seen = set()
    for b in behs:
        for c in b["calls"]:
            k = json.dumps(c)
            if k not in seen:
                seen.add(k)
                calls.append(c)
    if not calls:
        raise vlib.ToolError("NalScan emitted no scan call")
    def w32(c):
        return "%02x%02x%02x%02x" % tuple(c)
    text = "exec 0\n" + "".join("mscan %s %s\n" % (w32(c[0]), hexs(c[1])) for c in calls) + "end\n"
    r = ctx.run([binp], input=text, timeout=600)
    if r.returncode != 0:
        raise vlib.ToolError("replay_nal_h264f (mscan) failed rc=%d: %s" % (r.returncode, (r.stderr or "")[-500:]))
    got = [l for l in r.stdout.splitlines() if l.startswith("mscan ") or l.startswith("san ")]
    diffs = []
    for c, l in zip(calls, got):
        want = "mscan p=%d c=%s" % (c[2], w32(c[3]))
        if l != want:
            diffs.append({"call": c, "real": l, "predicted": want})
    if len(got) != len(calls):
        diffs.append({"real_lines": len(got), "calls": len(calls)})
    return len(calls), diffs

# ----------------------------------------------------------------------- run
def deep_java_stack():
    """The recursive operators over octet strings of a few hundred elements
    (access units as explicit sequences) overflow TLC's default thread stack:
    every JVM this check starts gets a larger one."""
    if "-Xss" not in os.environ.get("JAVA_TOOL_OPTIONS", ""):
        os.environ["JAVA_TOOL_OPTIONS"] = (os.environ.get("JAVA_TOOL_OPTIONS", "") + " -Xss64m").strip()


def run(ctx):
    deep_java_stack()
    quick = ctx.quick
    side = {"err": [], "exes": [], "rej": [], "bin": None}

    def code_to_spec():
        """3. code -> spec (runs while TLC works on the models)."""
        try:
            side["bin"] = ctx.cc("replay_nal_asan", SRCS, san="asan")
            rng = vlib.Rng(ctx.seed)
            exes = directed_frames(quick)
            exes += [random_frame_exe(rng, quick) for _ in range(350 if quick else 12000)]
            exes += [raw_exe(rng) for _ in range(150 if quick else 5000)]
            exes += [random_rbsp_exe(rng, quick) for _ in range(250 if quick else 8000)]
            exes += [random_bytes_exe(rng, quick) for _ in range(200 if quick else 6000)]
            execute(ctx, side["bin"], exes, jobs=6)
            side["exes"] = exes
            side["rej"] = validate(ctx, exes, "cs", jobs=(3 if quick else 6))
        except Exception as ex:
            side["err"].append(ex)
    cs = threading.Thread(target=code_to_spec)
    cs.start()
    fside = {"err": [], "exes": [], "rej": [], "bin": None}

    def framer_to_spec():
        """stage 2: executions of the real H.264 framer (runs while TLC works)."""
        try:
            fside["bin"] = ctx.cc("replay_nal_h264f_asan", H264_SRCS, flags=SHIM_FLAGS, san="asan")
            exes = framer_executions(vlib.Rng(ctx.seed + 4242), quick)
            execute(ctx, fside["bin"], exes, jobs=4)
            fside["exes"] = exes
            fside["rej"] = validate(ctx, exes, "fs", jobs=(2 if quick else 6))
        except Exception as ex:
            fside["err"].append(ex)
    fs = threading.Thread(target=framer_to_spec)
    fs.start()

    # ---- 1. model checking
    # TLC's -coverage does not terminate on these modules (cost model of the
    # nested RECURSIVE operators): the models carry a ghost variable `acts`
    # (names of the actions taken), emitted with every behaviour; the vacuity
    # guard (ctx.require_coverage) is fed from it (coverage_from_acts).
    pos = [dict(mod="Nal", cfg="q1", workers=2, coverage=NAL_COV),
           dict(mod="Nal", cfg="q2", workers=2, coverage=NAL_COV),
           dict(mod="Nal", cfg="q3", workers=2, coverage=NAL_COV),
           dict(mod="NalBits", cfg="g_q", workers=2, coverage=BITS_G_COV),
           dict(mod="NalBits", cfg="p_q", workers=1, coverage=BITS_P_COV),
           dict(mod="NalScan", cfg="q", workers=2, coverage=SCAN_COV)]
    if not quick:
        pos += [dict(mod="Nal", cfg="t1", workers=6, timeout=1500, heap="8g", coverage=NAL_COV),
                dict(mod="Nal", cfg="t2", workers=6, timeout=1500, heap="8g", coverage=NAL_COV),
                dict(mod="NalBits", cfg="g_t", workers=4, timeout=1500, coverage=BITS_G_COV),
                dict(mod="NalBits", cfg="p_t", workers=4, timeout=1500, coverage=BITS_P_COV),
                dict(mod="NalScan", cfg="t", workers=6, timeout=1500, heap="8g", coverage=SCAN_COV)]
    neg = [dict(mod="Nal", cfg=c) for c in ("neg_s11", "neg_len2", "neg_sc3", "neg_corr")]
    neg += [dict(mod="NalBits", cfg=c) for c in ("neg_one0", "neg_noreset", "neg_ue32", "neg_se")]
    # ("any": the scan model WITHOUT the precondition 'the stream does not begin with
    # 00 00 01' - the trap it reaches is looked for on the real framer by the
    # directed executions 'lead3')
    neg += [dict(mod="NalScan", cfg=c) for c in ("neg_prologue", "neg_ctx", "neg_prev", "any")]
    try:
        res = run_models(ctx, pos + neg)
    finally:
        cs.join()
        fs.join()
    for sd, what in ((side, "code->spec"), (fside, "framer")):
        if sd["err"]:
            ex = sd["err"][0]
            raise ex if isinstance(ex, vlib.ToolError) else vlib.ToolError("%s driver: %r" % (what, ex))
    for j in pos:
        r = res[j["cfg"]]
        ctx.model_must_hold(r, "%s/%s" % (j["mod"], j["cfg"]))
        coverage_from_acts(r)
        ctx.require_coverage(r, j["coverage"])
        ctx.states += r.distinct
        ctx.transitions += r.generated
    ctx.exhaustive = True
    binp = side["bin"]
    rng = vlib.Rng(ctx.seed + 77)
    exes = []
    for j in neg:
        r = res[j["cfg"]]
        if not r.violated:
            raise vlib.ToolError("vacuity: negative configuration %s/%s not rejected by TLC" % (j["mod"], j["cfg"]))
        ctx.extra.setdefault("negative_configurations", {})[j["cfg"]] = r.violated
        # the counterexamples of the conversion variants are directed tests for the code
        if j["mod"] != "Nal":
            continue
        for i, b in enumerate(r.beh("CEX")[:4]):
            exes.append(beh_frame_exe(b, 0, rng, "counterexample of model variant " + j["cfg"]))

    # ---- 2. spec -> code
    nbeh = 0
    seen = set()
    for j in pos:
        if j["mod"] == "NalScan":
            continue
        for b in res[j["cfg"]].beh():
            k = json.dumps(b, sort_keys=True)
            if k in seen:
                continue
            seen.add(k)
            if j["mod"] == "Nal":
                exes.append(beh_frame_exe(b, nbeh, rng, "TLC " + j["cfg"]))
            else:
                exes.append(beh_rbsp_exe(b, quick, "TLC " + j["cfg"]))
            nbeh += 1
    if nbeh == 0:
        raise vlib.ToolError("TLC emitted no behaviour")
    execute(ctx, binp, exes, jobs=6)
    diffs = []
    tovalidate = []
    differing = []
    for i, e in enumerate(exes):
        d = None
        if e.pred is not None:
            d = lockstep_frame(e) if e.meta["k"] == "frame" else lockstep_rbsp(e)
            if d:
                diffs.append({"script": e.cmds[:8], "difference": d[:400]})
        # the trace specification judges every behaviour that differs from the
        # prediction, and a sample of the others
        if d:
            differing.append(e)
        elif i % (12 if quick else 6) == 0 or e.source.startswith("counterexample"):
            tovalidate.append(e)
    # (when a defect makes thousands of behaviours differ, the shortest ones suffice)
    differing.sort(key=lambda e: (len(e.cmds), sum(len(c) for c in e.cmds)))
    tovalidate += differing[:(300 if quick else 3000)]
    rejected = side["rej"] + validate(ctx, tovalidate, "sc", jobs=(3 if quick else 6))
    allx = side["exes"] + exes
    # vacuity of the trace specification: one altered field per kind of event
    cor, missing = corrupted_copies(side["exes"], rejected)
    if missing:
        raise vlib.ToolError("vacuity: no accepted execution with events %s to corrupt" % missing)
    rc = validate(ctx, cor, "vac", jobs=1)
    ctx.traces -= len(cor)
    if len(rc) != len(cor):
        acc = [c.source for c in cor if c not in [e for e, _ in rc]]
        raise vlib.ToolError("vacuity: Nal_Trace accepted corrupted executions: %s" % acc)
    ctx.extra["corrupted_traces_rejected"] = [c.source for c in cor]
    ctx.evaluations += len(allx)
    ctx.extra["model_behaviours_replayed"] = nbeh
    ctx.extra["behaviours_differing_from_prediction"] = len(diffs)
    if diffs:
        ctx.extra["first_difference"] = diffs[0]
    ctx.extra["executions_on_real_code"] = len(allx)
    ctx.extra["events_recorded"] = sum(len(e.events) for e in allx)
    ctx.extra["conversions_executed"] = sum(1 for e in allx for ev in e.events if ev["e"] == "Conv")
    ctx.extra["conversions_refused"] = sum(1 for e in allx for ev in e.events if ev["e"] == "Conv" and ev["r"] != 0)
    ctx.extra["segmented_frames"] = sum(1 for e in allx if e.events[0].get("nseg", 1) > 1)
    ctx.extra["reader_segmentations"] = sum(ev.get("nseg", 0) for e in allx for ev in e.events if ev["e"] == "SInit")
    ctx.extra["asserts_on_arbitrary_input"] = sum(1 for e in allx if e.meta["k"] == "raw"
                                                  for ev in e.events if ev["e"] == "Abort")
    ctx.extra["executions_rejected"] = len(rejected)
    for e in exes:
        if e.pred is not None and e.meta["k"] == "frame" and len(e.events) > 5:
            ctx.sample({"source": e.source, "script": e.cmds[:8], "events": e.events[:8]}, limit=1)
            break
    for e in exes:
        if e.pred is not None and e.meta["k"] == "rbsp" and len(e.meta["bytes"]) > 6:
            ctx.sample({"source": e.source, "script": e.cmds, "predicted": e.pred, "events": e.events[:8]}, limit=2)
            break
    for e in side["exes"]:
        if e.source == "random" and 6 < len(e.events) < 40:
            ctx.sample({"source": "random seed=%d" % ctx.seed, "script": e.cmds[:8], "events": e.events[:8]}, limit=3)
            break
    judge(ctx, binp, rejected)
    # ---- stage 2: the start code scanner in lock step, the framer executions judged
    scan_behs = [b for j in pos if j["mod"] == "NalScan" for b in res[j["cfg"]].beh()]
    ncalls, sdiffs = replay_scan(ctx, fside["bin"], scan_behs)
    ctx.extra["scan_behaviours"] = len(scan_behs)
    ctx.extra["scan_calls_replayed"] = ncalls
    ctx.extra["scan_calls_differing"] = len(sdiffs)
    if sdiffs:
        ctx.extra["first_scan_difference"] = sdiffs[0]
        diffs.append(sdiffs[0])
    fex = fside["exes"]
    ctx.evaluations += len(fex)
    ctx.extra["framer_executions"] = len(fex)
    ctx.extra["framer_input_buffers"] = sum(1 for e in fex for ev in e.events if ev["e"] == "Feed")
    ctx.extra["framer_access_units_output"] = sum(1 for e in fex for ev in e.events if ev["e"] == "Out")
    ctx.extra["framer_executions_rejected"] = len(fside["rej"])
    for e in fex:
        if e.source == "random cuts" and len(e.events) < 30:
            ctx.sample({"source": "framer, seed=%d" % ctx.seed, "script": [c[:120] for c in e.cmds[:6]],
                        "events": [json.loads(json.dumps(ev)[:300]) if len(json.dumps(ev)) < 300 else {"e": ev["e"]}
                                   for ev in e.events[1:10]]}, limit=4)
            break
    fcor = corrupted_framer_copies(fex, fside["rej"])
    frc = validate(ctx, fcor, "fvac", jobs=1)
    ctx.traces -= len(fcor)
    if len(fcor) < 2 or len(frc) != len(fcor):
        raise vlib.ToolError("vacuity: Nal_Trace accepted a corrupted framer execution (%d of %d rejected)" % (len(frc), len(fcor)))
    ctx.extra["corrupted_traces_rejected"] += [c.source for c in fcor]
    for e, line in fside["rej"]:
        if line == 1:
            raise vlib.ToolError("generator and specification disagree on an elementary stream (Reset rejected): %s"
                                 % json.dumps(e.events[0])[:600])
    judge_framer(ctx, fside["bin"], fside["rej"])
    # a difference with the prediction that the trace specification accepts is
    # not a violation; it is recorded
    if diffs and not ctx.violations and not ctx.known_hits:
        ctx.extra["model_drift"] = True
        ctx.notes.append("real code differs from the detailed model's prediction without violating the abstract specification")
    ctx.assumptions += [
        "frames given to upipe_h26xf_convert_frame are what Ser produces: every NAL unit carries its prefix, the attributes h26x.n[k] hold the offsets of the NAL units 2..N, the caller names the encapsulation the frame is in; annexb_header is the 4-octet start code of upipe_h26xf_alloc_annexb",
        "a frame holding an empty NAL unit (not a NAL unit in the sense of ITU-T H.264 7.3.1) may be refused; nothing is required of it under the attribute-delimited encapsulation (UREF_H26X_ENCAPS_NALU); after a refused conversion the half-converted frame is not constrained",
        "the header size (uref_block header_size) bookkeeping of convert_frame is not judged; uref_h26x_prepend_nal is judged on recorded executions only (not in the exhaustive model)",
        "bit reader contract: at most 24 bits per upipe_h26xf_stream_fill_bits; codes with more than 31 leading zeros and strings that end inside a code are not constrained (value, overflow flag); the overflow flag may be raised by the 7 bits of look-ahead of the first fill of upipe_h26xf_stream_ue",
        "arbitrary octets / offsets / wrong encapsulation claims: only 'no sanitizer report' is required; a failed assert of upipe_h26xf_decaps_nal is tolerated there",
    ]
    ctx.assumptions += [
        "stage 2 (H.264 framer only, Annex B input): the elementary streams come from the reference bit-writer of checks/c17.py (baseline-profile SPS without VUI, PPS, access unit delimiter in front of every access unit, IDR access units carry SPS and PPS, slices whose headers differ as ITU-T H.264 7.4.1.2.4 requires); that its access unit ranges are the access units of the standard is the generator's claim - Nal_Trace re-checks that they tile the stream and begin with start codes; the shim harness/shim/bitstream/mpeg/h264.h replaces biTStream",
        "the last access unit is expected when the framer is released; access units before the first parameter sets may be skipped; timestamps, picture attributes and the other flow definition attributes are not judged; on corrupt streams only 'no sanitizer report' is required",
    ]
    ctx.trusted += ["harness/replay_nal_h264f.c (command interpreter)", "harness/shim/bitstream/mpeg/h264.h (clean-room shim)",
                    "TLC", "harness/replay_nal.c (command interpreter, run codec)",
                    "gcc AddressSanitizer / UndefinedBehaviorSanitizer",
                    "checks/c17.py generators (their frames and encoded fields are re-checked by Nal_Trace at every Reset)"]
    # stage 3: the H.265 framer (checks/c17_h265.py)
    try:
        from checks import c17_h265
    except ImportError:
        c17_h265 = None
    if c17_h265 is not None:
        c17_h265.run_part(ctx)


def replay(ctx, rp):
    """bin/check C17 --replay file: re-run the stored script."""
    deep_java_stack()
    r = rp["replay"]
    if str(r.get("meta", {}).get("k", "")).startswith("h265"):
        from checks import c17_h265
        return c17_h265.replay(ctx, rp)
    if r["meta"]["k"] in ("h264", "h264raw"):
        binp = ctx.cc("replay_nal_h264f_asan", H264_SRCS, flags=SHIM_FLAGS, san="asan")
    else:
        binp = ctx.cc("replay_nal_asan", SRCS, san="asan")
    e = Exe(r["script"], "replay", r["meta"])
    execute(ctx, binp, [e], jobs=1)
    rej = validate(ctx, [e], "replay", jobs=1)
    if rej:
        line = rej[0][1]
        print("VIOLATION property=C17 replay reproduced: event %d %s" % (line, json.dumps(e.events[line - 1])[:600]))
        return 1
    print("OK property=C17 replay accepted")
    return 0
