"""C07 - lock-free FIFO / LIFO / pool are linearizable.

1. TLC checks the detailed model spec/Uring.tla (one action per shared
   access) exhaustively for small client programs.
2. Negative configurations of the model (known-bad variants): TLC must find
   the violation (vacuity guard) and the counterexample SCHEDULE is replayed
   on the real code, whose history must still be linearizable.
3. Stateless DFS (preemption-bounded) over the real code's yield points for a
   set of client programs; histories (with a sequential probe epilogue)
   validated by spec/Lin_Trace.tla.
4. Lock-step: TLC simulation behaviours of the model are replayed on the
   real code (model drift detection, not a verdict).
"""
import json, os, re
import vlib

LEVEL = "model_checking"

POS_QUICK = ["f2_PPp_pPp", "l2_PP_PPp", "f2_PpP_pPp", "l2_PPp_pPp", "f1_Pp_Pp", "f2_Pp_Pp_p"]
POS_THOROUGH = ["f3_PPp_pPp", "f2_PPpp_pp", "l3_PPp_pPp", "f2_P_P_pp", "l2_Pp_Pp_p", "f2_Pp_p_P",
                "f2_PPp_pPp_p", "l2_PPp_pPp_p"]
NEG = [("neg_s10", "fifo", 2, "PPp,pPp"), ("neg_notag", "lifo", 2, "PP,PPp")]

# (kind, N, programs, preemption bound quick, thorough)
DFS = [
    ("fifo", 2, "PPp,pPp", 2, 3),
    ("fifo", 2, "PP,PPp", 2, 3),
    ("fifo", 1, "Pp,Pp", 2, 4),
    ("fifo", 2, "PpP,pPp", 2, 3),
    ("fifo", 3, "PPPp,ppP", 1, 2),
    ("fifo", 2, "Pp,Pp,p", 1, 2),
    ("fifo", 2, "PPp,pPp,p", 1, 2),
    ("lifo", 2, "PPp,pPp", 2, 3),
    ("lifo", 2, "PP,PPp", 2, 3),
    ("lifo", 1, "Pp,Pp", 2, 4),
    ("lifo", 3, "PPp,pPp,Pp", 1, 2),
    ("pool", 2, "AAF,AFA", 2, 3),
    ("pool", 1, "AF,AF", 2, 4),
    ("pool", 2, "AFAF,AAFF", 2, 2),
    ("pool", 2, "AF,AF,AF", 1, 2),
]
SIM = [("sim_f2", "fifo", 2, "PPp,pPp"), ("sim_l2", "lifo", 2, "PPp,pPp")]


def parse_hists(text):
    hists = []
    for line in text.splitlines():
        if not line.startswith("{"):
            continue
        e = json.loads(line)
        if e["e"] == "Reset":
            hists.append([e])
        else:
            hists[-1].append(e)
    return hists


def harness(ctx, binp, kind, N, progs, mode_args, timeout=600):
    r = ctx.run([binp, kind, str(N), progs] + [str(a) for a in mode_args], timeout=timeout)
    if r.returncode == 4:
        return None, {"diverged": True}
    if r.returncode != 0:
        raise vlib.ToolError("sched_ring failed rc=%d: %s" % (r.returncode, r.stderr[-2000:]))
    stats = {}
    for l in r.stderr.splitlines():
        if l.startswith("{"):
            stats.update(json.loads(l))
    return parse_hists(r.stdout), stats


def judge_all(ctx, binp, pool):
    """pool: list of (history, source).  One TLC run validates all of them;
    each rejection is reproduced from its schedule before it is reported."""
    hists = [h for h, _ in pool]
    rej = ctx.validate_histories("Lin_Trace", "Lin_Trace.cfg", hists, tag="lin", max_reject=6)
    for idx, line, inv in rej:
        h, source = pool[idx]
        kind = {"bag": "pool"}.get(h[0]["kind"], h[0]["kind"])
        N, progs, sched = h[0]["cap"], h[0]["prog"], h[0]["sched"]
        h2, _ = harness(ctx, binp, kind, N, progs, ["replay", sched])
        rej2 = ctx.validate_histories("Lin_Trace", "Lin_Trace.cfg", h2, tag="linre") if h2 else []
        if not rej2:
            raise vlib.ToolError("rejected history did not reproduce (flaky harness?): %s %s" % (progs, sched))
        ev = h[line - 1] if 0 < line <= len(h) else {}
        key = "%s;cap=%d;prog=%s;%s" % (kind, N, progs, ev.get("op", ev.get("e", "?")))
        ctx.violation(key,
                      "non-linearizable history of the real %s (capacity %d, programs %s): event %d %s not explainable"
                      % (kind, N, progs, line, json.dumps(ev)),
                      {"cmd": "sched_ring %s %d %s replay %s" % (kind, N, progs, sched),
                       "history": h, "source": source})


def run(ctx):
    binp = ctx.cc("sched_ring", ["sched_ring.c", "vsched.c"])
    ctx.assumptions += [
        "all uatomic operations are __ATOMIC_SEQ_CST; interleaving at the granularity of atomic operations and plain ring-element accesses (hooks H1+H2); compiler/hardware reordering among plain accesses is not modelled",
        "tags do not wrap within the explored bounds (8/16-bit tag wrap-around ABA after 2^8/2^16 reuses inside one preemption window is outside the stated bounds)",
    ]
    # 1. exhaustive model checking of the detailed model
    cfgs = list(POS_QUICK) + ([] if ctx.quick else POS_THOROUGH)
    for c in cfgs:
        res = ctx.tlc("MCUring", "MCUring_%s.cfg" % c, workers=(2 if ctx.quick else 8),
                      heap=("4g" if ctx.quick else "24g"), timeout=(300 if ctx.quick else 2400),
                      coverage=False)
        ctx.model_must_hold(res, "Uring/" + c)
    # 2. negative configurations: must fail in the model; their counterexample
    #    schedule is a directed test for the real code
    pool = []
    for c, kind, N, progs in NEG:
        res = ctx.tlc("MCUring", "MCUring_%s.cfg" % c, workers=1, count=False)
        if not res.violated:
            raise vlib.ToolError("vacuity: negative configuration %s not detected by the model" % c)
        m = res.last_seq("sched")
        if not m:
            raise vlib.ToolError("no schedule in counterexample of " + c)
        sched = "".join(str(x - 1) for x in m)
        hists, st = harness(ctx, binp, kind, N, progs, ["replay", sched])
        ctx.extra.setdefault("directed_schedules", []).append({"cfg": c, "sched": sched, "diverged": hists is None})
        if hists is None:
            continue   # the real code does not follow the bad model: fine
        ctx.evaluations += 1
        pool += [(h, "counterexample schedule of model variant " + c) for h in hists]
    # 3. DFS over the real code
    total_runs = 0
    total_unique = 0
    complete = True
    for kind, N, progs, pbq, pbt in DFS:
        pb = pbq if ctx.quick else pbt
        maxruns = 60000 if ctx.quick else 3000000
        hists, st = harness(ctx, binp, kind, N, progs, ["dfs", pb, maxruns], timeout=3000)
        total_runs += st.get("runs", 0)
        total_unique += st.get("unique", 0)
        complete = complete and st.get("complete", False)
        ctx.extra.setdefault("dfs", []).append({"kind": kind, "cap": N, "prog": progs, "preemption_bound": pb,
                                                "schedules": st.get("runs"), "distinct_histories": st.get("unique"),
                                                "complete_within_bound": st.get("complete")})
        if hists:
            ctx.sample({"kind": kind, "cap": N, "prog": progs, "history": hists[min(2, len(hists) - 1)][:14]}, limit=3)
        pool += [(h, "dfs pb=%d" % pb) for h in hists]
        # random schedules on top (seeded)
        hists, st = harness(ctx, binp, kind, N, progs, ["random", 3000 if ctx.quick else 200000, ctx.seed, 6], timeout=3000)
        total_runs += st.get("runs", 0)
        total_unique += st.get("unique", 0)
        pool += [(h, "random seed=%d" % ctx.seed) for h in hists]
    ctx.evaluations += total_runs
    ctx.extra["schedules_run_on_real_code"] = total_runs
    ctx.extra["distinct_histories_validated"] = total_unique
    ctx.extra["dfs_complete_within_preemption_bound"] = complete
    # 4. lock-step replay of model behaviours (drift detection)
    drift = None
    nsim = 0
    for c, kind, N, progs in SIM:
        res = ctx.tlc("MCUring", "MCUring_%s.cfg" % c, workers=1, simulate=(150 if ctx.quick else 3000), depth=300, count=False)
        ctx.model_must_hold(res, "Uring/" + c)
        for b in res.beh():
            sched = "".join(str(x - 1) for x in b["sched"])
            hists, st = harness(ctx, binp, kind, N, progs, ["replay", sched])
            nsim += 1
            if hists is None or st.get("replay_len") != len(b["sched"]):
                drift = drift or {"cfg": c, "sched": sched, "why": "schedule length / runnability differs"}
                continue
            got = {}
            for e in hists[0][1:]:
                if e["e"] == "Ret" and e["t"] < len(b["res"]):
                    got.setdefault(e["t"], []).append(e["v"])
            want = {i: r for i, r in enumerate(b["res"])}
            if any(got.get(i, []) != want[i] for i in want):
                drift = drift or {"cfg": c, "sched": sched, "why": "results differ", "model": want, "code": got}
            pool += [(h, "model behaviour " + c) for h in hists]
    judge_all(ctx, binp, pool)
    ctx.extra["model_behaviours_replayed_lockstep"] = nsim
    ctx.extra["model_drift"] = drift is not None
    if drift:
        ctx.extra["model_drift_first"] = drift
        ctx.notes.append("detailed model and code disagree (model drift): exhaustive TLC result does not transfer; verdict rests on the exploration of the real code")
    ctx.trusted += ["harness/vsched.c (coroutine scheduler)", "TLC", "gcc __atomic builtins as sequentially consistent"]


def replay(ctx, rp):
    from checks import schedreplay
    return schedreplay.replay_cmd(ctx, rp, "C07", {"sched_ring": dict(src=["sched_ring.c", "vsched.c"], trace=("Lin_Trace", "Lin_Trace.cfg"))})
