"""Shared helpers for the pipe-level checks: build harness/pipe_driver.c with
the repository sources it needs, run command scripts, parse the output."""
import os, glob
import vlib

LIB = ["umem_alloc", "udict_inline", "uref_std", "ubuf_block_mem", "ubuf_mem_common", "uclock_std", "uprobe",
       "upump_common"]
MODULES = ["idem", "dup", "setattr", "setflowdef", "probe_uref", "skip", "htons", "delay", "match_attr", "null",
           "aggregate", "chunk_stream", "setrap", "noclock", "nodemux", "genaux", "convert_to_block"]


def driver_sources(extra_modules=(), extra=(), exts=()):
    """exts: the harness/pd_ext_*.c extension files THIS check needs (only those are
    compiled in, so a half-edited extension of another check cannot break yours)."""
    src = ["pipe_driver.c", "pipe_registry.c"] + list(exts)
    src += ["lib/upipe/%s.c" % n for n in LIB]
    src += ["lib/upipe-modules/upipe_%s.c" % n for n in list(MODULES) + list(extra_modules)]
    return src + list(extra)


def build_driver(ctx, san="asan", extra_modules=(), extra=(), out="pipe_driver", flags=(), exts=()):
    return ctx.cc(out, driver_sources(extra_modules, extra, exts), san=san, flags=list(flags))


def run_script(ctx, binp, lines, pool=0, timeout=120):
    """Run a command script; returns (blocks, raw) where blocks is a list of
    (command_tokens, [output lines until and including the ret line])."""
    r = ctx.run([binp, str(pool)], input="\n".join(lines) + "\nquit\n", timeout=timeout,
                env={"ASAN_OPTIONS": "detect_leaks=1:abort_on_error=0:exitcode=97",
                     "UBSAN_OPTIONS": "print_stacktrace=1:halt_on_error=1:exitcode=98"})
    blocks = []
    cur = None
    for l in r.stdout.splitlines():
        if l.startswith("cmd "):
            cur = (l.split()[1:], [])
            blocks.append(cur)
        elif cur is not None:
            cur[1].append(l)
    return blocks, r
