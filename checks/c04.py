"""C04 - pipes announce themselves, negotiate the flow, then send data.

1. TLC checks spec/PipeLife.tla exhaustively (the output state machine of
   include/upipe/upipe_helper_output.h for a forwarding pipe, two sinks with an
   accept/refuse policy, a probe that may answer need_output; every behaviour is
   fed, event by event, to the abstract monitor spec/PipeLifeMon.tla whose five
   flags are the sentences of the statement) with coverage guard, and prints
   every transition of the state graph (EDGE: command + predicted observations).
2. Negative configurations (broken helper variants) must be rejected.
3. spec -> code: every edge (shortest path to its source state, the edge, a
   probe epilogue get_flow_def + input + release) is replayed by
   harness/pipe_driver.c on every pipe type whose data path is exactly that
   helper ("thru" types) and the ordered observations (probe events, sink
   set_flow_def / input, drops, get_flow_def answers) are compared command by
   command with what TLC predicted.
4. code -> spec: the same TLC-generated command scripts (through a per-type
   template: sub-pipes, pump manager, clock, flow definition names) and seeded
   random scripts are executed on EVERY covered pipe type; the complete ordered
   log (commands, probe events with log messages, sink-side occurrences) of
   every execution is validated by spec/PipeLife_Trace.tla (TLC).
Every rejected execution is cut after the offending command, shrunk, re-run
and re-validated before it is reported (key = type;what;situation).  A thru
type that disagrees with the detailed model without breaking the abstract
monitor is model drift (evidence), not a violation.
"""
import json, os, re, glob
import vlib
from checks import pipecommon

LEVEL = "model_checking"
SHIM = ["-I", vlib.HARNESS + "/shim"]

# --------------------------------------------------------------------- registry
# cls  "thru": forwards every buffer at once through upipe_helper_output (predictions compared)
#      "gen" : anything else (validated by the monitor only)
# Fields (defaults in typ()): alloc = commands creating the pipes (p0 = the pipe, p1.. sub-pipes);
# fdp / inp / outp = pipe that receives set_flow_def / input / set_output; rel = release order;
# fd = harness names of flow definitions A and B; data = block buffers may be fed after fd A/B;
# opt = plain option (name, v1, v2); optfd = option merged into the output flow definition;
# env = environment commands before allocation; dies = the type destroys itself as soon as
# nobody holds it (no deliberate self-reference while it waits for something); incmd = the
# command(s) of one input ({p} {id} {size} {t} {tm}: t = 100 * id, tm = 100 * (id - 1));
# label = what names a flow for the flow tags ("letter": the A / B component of the definition
# string, "hsize": the picture size, "chan": the number of channels - pipes that copy only the format of
# their input into a definition string of their own).
def typ(name, cls="gen", src=None, **kw):
    d = dict(name=name, cls=cls, src=src, alloc=["new p0 " + name], fdp="p0", inp="p0", outp="p0",
             rel=["p0"], fd={"A": "bA", "B": "bB"}, data=True, opt=None, optfd=None, env=[],
             dies=True, size=188, incmd="in {p} {id} {size}", label="letter")
    d.update(kw)
    return d


M = "lib/upipe-modules/upipe_%s.c"
TS = "lib/upipe-ts/upipe_%s.c"
FR = "lib/upipe-framers/upipe_%s.c"
PUMP = ["env upump on", "env uclock on"]
TSFD = {"A": "bmpegts.A", "B": "bmpegts.B"}
SATTR = " rate=48000 channels=2 sample_size=4 splanes=1 samples=1024"
PATTR = " hsize=16 vsize=16 fps=25 pplanes=3"


def sfd_chan(fmt="s32"):
    """flows A and B differ by their number of channels (2 / 4): what a converter copies into its own definition"""
    return {"A": "x:sound.%s.A. rate=48000 channels=2 sample_size=8 splanes=1 samples=1024" % fmt,
            "B": "x:sound.%s.B. rate=48000 channels=4 sample_size=16 splanes=1 samples=1024" % fmt}


def sfd(fmt="s16"):
    # one packed plane: the sample size is that of a stereo sample of the format
    a = SATTR if fmt == "s16" else SATTR.replace("sample_size=4", "sample_size=8")
    return {"A": "x:sound.%s.A.%s" % (fmt, a), "B": "x:sound.%s.B.%s" % (fmt, a)}


PICFD = {"A": "x:pic.A." + PATTR, "B": "x:pic.B." + PATTR}
PICIN = "inpic {p} {id} pts_sys={t} pts_prog={t} duration=1080000"
SNDIN = "insound {p} {id} 1024 pts_sys={t} pts_prog={t} duration=576000"

# ---- well-formed payloads: what a pipe type needs in order to let a buffer through --------------
def _hex(bs):
    return "".join("%02x" % (b & 255) for b in bs)


def ts_packet(nin, pid=100):
    """one 188-octet TS packet, payload only, unit start, continuity counter following the input"""
    return [0x47, 0x40 | (pid >> 8), pid & 255, 0x10 | (nin & 15)] + [(nin * 3 + i) % 0x40 for i in range(184)]


def psi_section(nin, tid=0x40):
    """a 20-octet private section (syntax indicator set; the CRC is not looked at by merge / split / join)"""
    return [tid, 0xB0, 17] + [(nin * 5 + i) & 255 for i in range(17)]


def ins_ts(T, nin):
    return ["ins %s %s 1 id=%d" % (T["inp"], _hex(ts_packet(nin)), nin)]


def ins_ts_pcr(T, nin):
    return ["ins %s %s 1 id=%d cr_prog=%d" % (T["inp"], _hex(ts_packet(nin)), nin, T0 + 27000 * nin)]


def ins_psi_payload(T, nin):          # what ts_decaps hands to the merger: pointer_field, section, stuffing
    return ["ins %s %s 1 id=%d start" % (T["inp"], _hex([0] + psi_section(nin) + [0xFF] * 8), nin)]


def ins_section(T, nin):
    return ["ins %s %s 1 id=%d" % (T["inp"], _hex(psi_section(nin)), nin)]


def ins_pes(T, nin):
    pay = [(nin * 7 + i) & 255 for i in range(16)]
    pes = [0, 0, 1, 0xE0, 0, 3 + 5 + len(pay), 0x80, 0x80, 5, 0x21, 0x00, 0x01, 0x00, 0x01] + pay
    return ["ins %s %s 1 id=%d start" % (T["inp"], _hex(pes), nin)]


def ins_h264(T, nin):
    nal = [0, 0, 0, 1, 0x65] + [((nin * 11 + i) % 200) + 4 for i in range(40)]
    return ["ins %s %s 1 id=%d pts_prog=%d dts_prog=%d" % (T["inp"], _hex(nal), nin, T0 + 100 * nin, T0 + 100 * nin)]


TYPES = [
    # --- in the shared registry (harness/pipe_registry.c)
    typ("idem", "thru"),
    typ("setattr", "thru", opt=("dict", "k=1", "k=2")),
    typ("setflowdef", "thru", optfd=("dict", "none", "k=1", "k=2")),
    typ("probe_uref", "thru"),
    typ("skip", "thru", opt=("offset", "0", "4")),
    typ("htons", "thru"),
    typ("delay", "thru", opt=("delay", "0", "27000")),
    typ("match_attr", "thru"),
    typ("setrap", "thru"),
    typ("noclock", "thru"),
    typ("nodemux", "thru"),
    typ("null"),
    typ("agg", src=[M % "aggregate"], opt=("output_size", "376", "564")),
    typ("chunk_stream", opt=("mtu", "188,1", "376,4")),
    typ("dup", alloc=["new p0 dup", "sub p1 p0"], outp="p1", rel=["p1", "p0"]),
    typ("genaux", dies=False, incmd="ins {p} 0011223344556677 1 id={id} cr_sys={t}"),
    typ("tblk", src=[M % "convert_to_block"], dies=False),
    # --- defined in harness/pd_ext_c04.c
    typ("buffer", opt=("max_size", "0", "4096")),
    # flow definition B = definition A plus one attribute (a strict superset), and the other way round: the
    # "same definition" shortcut of the output helper must not take a superset for the same
    typ("idem_superset", "thru", src=[], key="idem", alloc=["new p0 idem"], fd={"A": "bA", "B": "bA+"}),
    typ("idem_subset", "thru", src=[], key="idem", alloc=["new p0 idem"], fd={"A": "bA+", "B": "bA"}),
    typ("setflowdef_superset", "thru", src=[], key="setflowdef", alloc=["new p0 setflowdef"],
        optfd=("dict", "none", "k=1", "k=2"), fd={"A": "bA", "B": "bA+"}),
    typ("skip_superset", "thru", src=[], key="skip", alloc=["new p0 skip"], opt=("offset", "0", "4"),
        fd={"A": "bA+", "B": "bA++"}),
    typ("buffer_pump", src=[], key="buffer", alloc=["new p0 buffer", "opt p0 set max_size 4096"], env=PUMP, opt=("max_size", "4096", "376")),
    typ("disblo", src=[M % "discard_blocking"], env=PUMP),
    typ("time_limit", "thru", env=PUMP, opt=("limit", "0", "27000"), dies=False),
    typ("rate_limit", "thru", env=PUMP, opt=("limit", "0", "1000000")),
    typ("rate_limit_hold", src=[], key="rate_limit", alloc=["new p0 rate_limit", "opt p0 set limit 1"], env=PUMP),
    typ("burst", env=PUMP),
    typ("even", alloc=["new p0 even", "sub p1 p0"], fdp="p1", inp="p1", outp="p1", rel=["p1", "p0"],
        fd={"A": "bsound.A", "B": "bsound.B"}, dies=False),
    # two inputs, data on one of them only: the pre-roll never ends and the input is held
    typ("trickp", src=[M % "trickplay"], alloc=["new p0 trickp", "sub p1 p0", "sub p2 p0", "setfd p2 bB"], fdp="p1",
        inp="p1", outp="p1", rel=["p1", "p2", "p0"], env=PUMP, incmd="ins {p} 0011223344556677 1 id={id} pts_prog=27000000"),
    typ("stream_switcher", alloc=["new p0 stream_switcher", "sub p1 p0"], fdp="p1", inp="p1", rel=["p1", "p0"]),
    typ("multicat_probe", "thru"),
    typ("dump", "thru"),
    typ("dtsdi"),
    typ("rtp_h264", fd={"A": "bh264.A", "B": "bh264.B"}, incmd=ins_h264),
    typ("rtp_mpeg4", fd={"A": "baac.sound.A", "B": "baac.sound.B"}),
    typ("m3u_reader"),
    typ("aes_decrypt", "thru"),
    typ("subpic_schedule", fd=PICFD, incmd=PICIN),
    # upipe_row_join is left out on purpose: its set_flow_def hands the caller's flow definition to
    # require_ubuf_mgr (which takes ownership): every set_flow_def ends in a use-after-free of the
    # caller's uref (AddressSanitizer) - a C01 matter, it would only drown this check's verdict
    typ("row_split", fd=PICFD, incmd=PICIN, alloc=["newf p0 row_split pic." + PATTR]),
    typ("ntsc_prepend", fd=PICFD, incmd=PICIN),
    typ("separate_fields", fd=PICFD, incmd=PICIN),
    typ("crop", fd=PICFD, incmd=PICIN),
    typ("rtp_pcm_pack", fd=sfd_chan("s32"), incmd=SNDIN, dies=False, label="chan"),
    typ("rtp_pcm_unpack", fd={"A": "x:block.s24be.sound.A. rate=48000 channels=2",
                              "B": "x:block.s24be.sound.B. rate=48000 channels=4"}, size=192, dies=False, label="chan"),
    typ("audio_merge", fd=sfd(), incmd=SNDIN, alloc=["newf p0 audio_merge sound.s16." + SATTR]),
    typ("audio_split", fd=sfd(), incmd=SNDIN),
    typ("audiocont", fd=sfd("f32"), incmd=SNDIN, alloc=["newf p0 audiocont sound.f32." + SATTR]),
    # pictures on the selected input, one reference tick per picture (the output is the tick
    # with the picture attached; only the FORMAT of the input's flow definition is copied)
    typ("videocont", fd={"A": "x:pic.A. hsize=16 vsize=16 fps=25 pplanes=3", "B": "x:pic.B. hsize=32 vsize=32 fps=25 pplanes=3"},
        alloc=["new p0 videocont", "setfdx p0 pic.R. fps=25", "sub p1 p0", "contin p1"], fdp="p1", inp="p1", rel=["p1", "p0"],
        incmd=["inpic {p} {id} pts_sys={t}", "intick p0 {id} pts_sys={tm}"], label="hsize"),
    typ("play", data=False),
    typ("dejitter", "thru"),
    typ("sync", data=False, fd=PICFD),
    typ("block_to_sound", alloc=["newf p0 block_to_sound sound.s32." + SATTR], data=False),   # needs a sound ubuf_mgr
    typ("audio_copy", fd=sfd(), incmd=SNDIN, alloc=["newf p0 audio_copy sound.s16." + SATTR], dies=False),
    # (the blank generators attach a buffer of THEIR OWN format to the reference uref they are given: the flow
    # tag of that uref says nothing about the buffer - they are driven without data)
    typ("vblk", src=[M % "video_blank"], data=False, fd=PICFD, alloc=["newf p0 vblk pic." + PATTR], dies=False),
    typ("ablk", src=[M % "audio_blank"], data=False, fd=sfd(), alloc=["newf p0 ablk sound.s16." + SATTR]),
    typ("voidsrc", src=[M % "void_source"], data=False, env=PUMP, alloc=["newf p0 voidsrc void. duration=27000"]),
    typ("qsink", src=[M % "queue_sink", M % "queue_source", M % "queue"], env=PUMP,
        alloc=["newqsrc p1 2", "newqsink p0 p1"], rel=["p0", "p1"], dies=False),
    typ("fsink", src=[M % "file_sink"], env=PUMP, dies=False),
    typ("udpsink", src=[M % "udp_sink", M % "udp"], env=PUMP, dies=False),
    typ("grid", data=False),
    typ("ts_check", src=[TS % "ts_check"], fd=TSFD, incmd=ins_ts),
    typ("ts_sync", src=[TS % "ts_sync"], fd=TSFD, incmd=ins_ts),
    typ("ts_align", src=[TS % "ts_align"], fd=TSFD, incmd=ins_ts),
    typ("ts_decaps", src=[TS % "ts_decaps"], fd=TSFD, incmd=ins_ts),
    typ("ts_psi_merge", src=[TS % "ts_psi_merge"], fd={"A": "bmpegtspsi.A", "B": "bmpegtspsi.B"}, incmd=ins_psi_payload),
    typ("ts_psi_split", src=[TS % "ts_psi_split"], fd={"A": "bmpegtspsi.A", "B": "bmpegtspsi.B"},
        alloc=["new p0 ts_psi_split", "subfx p1 p0 block.mpegtspsi.sub. psi_filter=40:ff"], outp="p1", rel=["p1", "p0"],
        incmd=ins_section),
    typ("ts_psi_join", src=[TS % "ts_psi_join"], alloc=["newf p0 ts_psi_join block.mpegtspsi.", "sub p1 p0"],
        fdp="p1", inp="p1", rel=["p1", "p0"], fd={"A": "bmpegtspsi.A", "B": "bmpegtspsi.B"}, incmd=ins_section),
    typ("ts_pid_filter", src=[TS % "ts_pid_filter"], fd=TSFD, alloc=["new p0 ts_pid_filter", "opt p0 set add_pid 100"],
        incmd=ins_ts),
    typ("ts_split", src=[TS % "ts_split"], fd=TSFD, alloc=["new p0 ts_split", "subfx p1 p0 block.mpegts.sub. pid=100"],
        outp="p1", rel=["p1", "p0"], incmd=ins_ts),
    typ("ts_pes_decaps", src=[TS % "ts_pes_decaps"], fd={"A": "bmpegtspes.A", "B": "bmpegtspes.B"}, incmd=ins_pes),
    typ("ts_pes_encaps", src=[TS % "ts_pes_encaps"], fd={"A": "x:block.A. pes_id=224", "B": "x:block.B. pes_id=224"},
        dies=False),
    typ("ts_pcr_interpolator", src=[TS % "ts_pcr_interpolator"], fd=TSFD, incmd=ins_ts_pcr),
    typ("ts_tstd", src=[TS % "ts_tstd"], data=False),
    typ("opus_framer", src=[FR % "opus_framer", FR % "framers_common"], fd={"A": "bopus.A", "B": "bopus.B"}),
    typ("s302_framer", src=[FR % "s302_framer"], fd={"A": "bs302m.sound.A", "B": "bs302m.sound.B"}),
    typ("telx_framer", src=[FR % "telx_framer"], fd={"A": "bdvb_teletext.A", "B": "bdvb_teletext.B"}),
]

BUILDABLE_NOTE = ("pipe types (distinct *_mgr_alloc) of lib/upipe-modules, lib/upipe-ts and "
                  "lib/upipe-framers whose source compiles and links in this sandbox (biTStream is "
                  "replaced by the clean-room shim harness/shim)")
BUILDABLE = 74 + 14 + 4 - 1     # modules (rtp_demux needs rtp_decaps: not linkable) + ts + framers


def type_by_name(n):
    for t in TYPES:
        if t["name"] == n:
            return t
    raise vlib.ToolError("unknown type " + n)


# ------------------------------------------------------------------------ build
def build(ctx):
    base = set(M % m for m in pipecommon.MODULES)
    extra_mod = []
    extra = ["vloop.c"]
    for t in TYPES:
        for s in (t["src"] if t["src"] is not None else [M % t["name"]]):
            if s in base:
                continue
            if s.startswith("lib/upipe-modules/upipe_") and s not in extra:
                extra_mod.append(s[len("lib/upipe-modules/upipe_"):-2])
            elif s not in extra:
                extra.append(s)
    have = set("lib/upipe/%s.c" % n for n in pipecommon.LIB)
    for f in sorted(glob.glob(os.path.join(vlib.REPO, "lib/upipe/*.c"))):
        rel = os.path.relpath(f, vlib.REPO)
        if rel not in have:
            extra.append(rel)
    srcs = pipecommon.driver_sources(extra_modules=sorted(set(extra_mod)), extra=extra,
                                     exts=["pd_ext_c04.c"])
    flags = SHIM + ["-pthread", "-DC04_WITH_TS"]
    san = "asan"
    if ctx.quick and not os.environ.get("VERIF_C04_ASAN"):      # (debugging aid: sanitised quick build)
        # the sanitised -O1 -g build of ~115 files alone takes the whole quick budget on a loaded machine
        flags += ["-O0", "-g0"]
        san = None
    objs = ctx.cc_objs(srcs, flags=flags, san=san)
    return ctx.cc("pipe_driver", objs, flags=flags + ["-Wl,--no-as-needed", "-lm"], san=san)


# ------------------------------------------------------------- model -> graph
def cmd_key(c):
    return (c["e"], c["p"], c["s"], c["fd"])


class Graph:
    def __init__(self, edges):
        self.nodes = {}
        self.adj = {}
        order = []
        for e in edges:
            ku = json.dumps(e["from"], sort_keys=True)
            kv = json.dumps(e["to"], sort_keys=True)
            if ku not in self.nodes:
                self.nodes[ku] = e["from"]
                order.append(ku)
            self.nodes.setdefault(kv, e["to"])
            self.adj.setdefault(ku, {})[cmd_key(e["cmd"])] = (kv, e["cmd"], e["obs"])
        self.inits = [k for k in order if self.nodes[k]["alive"] == "no"]
        self.parent = {k: None for k in self.inits}
        queue = list(self.inits)
        while queue:
            u = queue.pop(0)
            for ck in sorted(self.adj.get(u, {})):
                v, c, o = self.adj[u][ck]
                if v not in self.parent:
                    self.parent[v] = (u, ck)
                    queue.append(v)

    def path(self, k):
        steps = []
        while self.parent[k] is not None:
            u, ck = self.parent[k]
            steps.append(self.adj[u][ck])
            k = u
        steps.reverse()
        return steps

    def epilogue(self, v):
        """probe epilogue from node v: one input, release, end"""
        steps = []
        for ck in (("GetFd", 1, 0, ""), ("In", 1, 0, ""), ("Rel", 1, 0, ""), ("End", 0, 0, "")):
            if ck in self.adj.get(v, {}):
                st = self.adj[v][ck]
                steps.append(st)
                v = st[0]
        return steps

    def edge_scripts(self, hasopt):
        """[(steps, index of the edge step)], steps = [(to, cmd, obs)]"""
        res = []
        for u in self.adj:
            if u not in self.parent or self.nodes[u]["hasopt"] != hasopt:
                continue
            pre = self.path(u)
            for ck in sorted(self.adj[u]):
                st = self.adj[u][ck]
                res.append((pre + [st] + self.epilogue(st[0]), len(pre)))
        res.sort(key=lambda x: (len(x[0]), json.dumps([s[1] for s in x[0]], sort_keys=True)))
        return res


# ----------------------------------------------------- abstract -> harness lines
def setfd_line(T, n):
    v = T["fd"][n]
    if v.startswith("x:"):
        return "setfdx %s %s" % (T["fdp"], v[2:])
    return "setfd %s %s" % (T["fdp"], v)


def fd_defstring(v):
    if v.startswith("x:"):
        return v[2:].split()[0]
    body = v[1:].rstrip("+")
    return "block.%s.%s" % (body, "+" * (len(v) - 1 - len(body)))      # as harness fd_name() prints it


T0 = 2700000000      # 100 s: well above the retention spans of the *cont pipes


def in_lines(T, nin):
    if callable(T["incmd"]):
        return T["incmd"](T, nin)
    cmds = T["incmd"] if isinstance(T["incmd"], (list, tuple)) else [T["incmd"]]
    return [c.format(p=T["inp"], id=nin, size=T["size"], t=T0 + 100 * nin, tm=T0 + 100 * (nin - 1)) for c in cmds]


def flow_label(T, fl):
    """the identity of a flow as the monitor compares it ("" = cannot be named)"""
    if not fl or fl == "none":
        return ""
    if T["label"] == "hsize":
        m = re.search(r"/h(\d+)$", fl)
        return "h" + m.group(1) if m else ""
    if T["label"] == "chan":
        m = re.search(r"/c(\d+)$", fl)
        return "c" + m.group(1) if m else ""
    m = re.search(r"(?:^|\.)([AB])\.", fl.split("/")[0])
    return m.group(1) if m else ""


def concretise(T, steps):
    """steps: [(to, cmd, obs)] -> (lines, owner) where owner[i] = index of the
    step that harness line i belongs to (-1: set-up); None if the type cannot run it."""
    lines = ["sink s1", "sink s2", "env fltag on"] + list(T["env"])
    owner = [-1] * len(lines)
    pol = {1: True, 2: True}
    nin = 0
    fd_ok = False
    for i, (to, c, obs) in enumerate(steps):
        e = c["e"]
        new = []
        if e == "New":
            new = list(T["alloc"])
        elif e == "SetFd":
            new = [setfd_line(T, c["fd"])]
            fd_ok = True
            if T["cls"] != "thru" and i % 2:
                # every other time the sinks answer at once what the new flow definition made the pipe ask for
                new += ["provall s1", "provall s2"]
        elif e == "OptFd":
            if not T["optfd"]:
                return None
            new = ["opt p0 set %s %s" % (T["optfd"][0], T["optfd"][1 + c["s"]])]
        elif e == "Opt":
            if not T["opt"]:
                return None
            new = ["opt p0 set %s %s" % (T["opt"][0], T["opt"][1 + (i % 2)])]
        elif e == "Flush":
            new = ["flush %s" % T["inp"]]
        elif e == "Loop":
            # (the sinks also answer what was asked of them: managers, clocks)
            new = ["loop 4"] if T["cls"] == "thru" else ["provall s1", "provall s2", "loop 4"]
        elif e == "In":
            if T["cls"] != "thru" and (not fd_ok or not T["data"]):
                return None     # an upstream that obeys the statement never does this
            nin += 1
            new = in_lines(T, nin)
        elif e == "GetFd":
            new = ["getfd %s" % T["outp"]]
        elif e == "Out":
            new = ["out %s %s" % (T["outp"], "s%d" % c["s"] if c["s"] else "null")]
        elif e == "Policy":
            pol[c["s"]] = not pol[c["s"]]
            new = ["policy s%d %s" % (c["s"], "accept" if pol[c["s"]] else "reject")]
        elif e == "Arm":
            new = ["arm %s s%d" % (T["outp"], c["s"])]
        elif e == "Rel":
            new = ["rel %s" % p for p in T["rel"]]
        elif e == "End":
            new = ["reset"]
        else:
            raise vlib.ToolError("unknown model command %r" % (c,))
        lines += new
        owner += [i] * len(new)
    if not lines or lines[-1] != "reset":
        lines.append("reset")
        owner.append(len(steps))
    return lines, owner


# -------------------------------------------------------- harness output -> events
def EV(e, p=0, s=0, k="", fd="", acc=False, die=(), fl="", now=False):
    return {"e": e, "p": p, "s": s, "k": k, "fd": fd, "acc": acc, "die": list(die), "fl": fl, "now": now}


def pid(name):
    return int(name[1:]) + 1


def sid(name):
    return int(name[1:])


RE_EV = re.compile(r"^ev (\S+) (\S+)(?: (.*))?$")
RE_SFD = re.compile(r"^sink (s\d+) set_flow_def (\S+) (accept|reject)(?: fl=(\S+))?$")
RE_FL = re.compile(r" fl=(\S+)( flnow)?$")
RE_SIN = re.compile(r"^sink (s\d+) input (u\d+) ")
RE_SOT = re.compile(r"^sink (s\d+) (register|unregister|control)\b")
RE_POUT = re.compile(r"^probe out (p\d+) (s\d+)$")


def parse_exec(T, lines, blocks):
    """-> (events, evstep, ok_new): events = monitor history (without the Reset line),
    evstep[i] = index of the harness line (command) that produced event i."""
    events, evline = [], []
    allocated = []

    def add(ev, li):
        events.append(ev)
        evline.append(li)

    if len(blocks) != len(lines):
        raise vlib.ToolError("pipe_driver: %d commands, %d blocks" % (len(lines), len(blocks)))
    for li, (tok, out) in enumerate(blocks):
        c = tok[0]
        retl = [l for l in out if l.startswith("ret ")]
        ret = retl[-1].split()[1] if retl else None
        pre = len(events)
        cur_in = None
        delivered = False
        if c in ("new", "newf", "newqsrc", "newqsink", "sub", "subf", "subin"):
            add(EV("New", pid(tok[1])), li)
            if ret == "0":
                allocated.append(pid(tok[1]))
        elif c in ("setfd", "setfdx"):
            add(EV("SetFd", pid(tok[1]), fd=tok[2]), li)
        elif c in ("in", "ins", "inpic", "insound", "intick"):
            add(EV("In", pid(tok[1])), li)
        elif c == "getfd":
            add(EV("Cmd"), li)
            if ret == "0" and len(retl[-1].split()) > 2:
                add(EV("GotFd", pid(tok[1]), fd=retl[-1].split()[2]), li)
        elif c == "out":
            pass        # decided by the return code, below
        elif c == "rel" and tok[1].startswith("p"):
            add(EV("Rel", pid(tok[1])), li)
        elif c == "rel":
            add(EV("RelSink", s=sid(tok[1])), li)
        elif c == "reset":
            pass
        else:
            add(EV("Cmd"), li)
        for l in out:
            m = RE_EV.match(l)
            if m:
                who, kind, rest = m.group(1), m.group(2), m.group(3) or ""
                if not re.match(r"^p\d+$", who):
                    continue            # inner pipes of a bin, the sinks' own probes
                if kind == "log":
                    add(EV("Ev", pid(who), k="log"), li)
                elif kind == "new_flow_def":
                    add(EV("Ev", pid(who), k=kind, fd=rest.strip()), li)
                else:
                    add(EV("Ev", pid(who), k=kind), li)
                continue
            m = RE_SFD.match(l)
            if m:
                add(EV("SinkFd", s=sid(m.group(1)), fd=m.group(2), acc=m.group(3) == "accept",
                       fl=flow_label(T, m.group(4))), li)
                continue
            m = RE_SIN.match(l)
            if m:
                if m.group(2) == cur_in:
                    delivered = True
                mf = RE_FL.search(l)
                add(EV("SinkIn", s=sid(m.group(1)), fl=flow_label(T, mf.group(1)) if mf else "",
                       now=bool(mf and mf.group(2))), li)
                continue
            m = RE_SOT.match(l)
            if m:
                add(EV({"register": "SinkReg", "unregister": "SinkUnreg", "control": "SinkCtl"}[m.group(2)],
                       s=sid(m.group(1))), li)
                continue
            m = RE_POUT.match(l)
            if m:
                add(EV("Out", pid(m.group(1)), sid(m.group(2))), li)
                continue
            if l.startswith("input u"):
                cur_in = l.split()[1]
                continue
            if cur_in and l == "uref free " + cur_in and not delivered:
                add(EV("Drop"), li)
        if c == "out":
            s = 0 if tok[2] == "null" else sid(tok[2])
            ev = EV("Out", pid(tok[1]), s) if ret == "0" else EV("Cmd")
            events.insert(pre, ev)
            evline.insert(pre, li)
        if c == "reset":
            add(EV("End", die=[p for p in allocated if T["dies"]]), li)
    return events, evline


WHITE = ("ready", "dead", "new_flow_def", "need_output")


def comparable(ev, fdmap):
    """projection of an event on what the detailed model predicts (None: not predicted)"""
    e = ev["e"]
    if e == "Ev":
        if ev["k"] not in WHITE:
            return None
        return ("Ev", ev["p"], ev["k"], fdmap.get(ev["fd"], ev["fd"]))
    if e == "SinkFd":
        return ("SinkFd", ev["s"], fdmap.get(ev["fd"], ev["fd"]), bool(ev["acc"]))
    if e == "SinkIn":
        return ("SinkIn", ev["s"])
    if e == "Drop":
        return ("Drop",)
    if e == "Out":
        return ("Out", ev["p"], ev["s"])
    if e == "GotFd":
        return ("GotFd", ev["p"], fdmap.get(ev["fd"], ev["fd"]))
    return None


# --------------------------------------------------------------- running scripts
class Exec:
    __slots__ = ("T", "lines", "owner", "steps", "edge", "source", "events", "evline", "blocks")

    def __init__(self, T, lines, owner, steps, edge, source):
        self.T, self.lines, self.owner, self.steps, self.edge, self.source = T, lines, owner, steps, edge, source
        self.events = self.evline = self.blocks = None


ENV = {"ASAN_OPTIONS": "detect_leaks=0:abort_on_error=0:exitcode=97",
       "UBSAN_OPTIONS": "print_stacktrace=1:halt_on_error=1:exitcode=98"}


def run_lines(ctx, binp, lines, timeout=600):
    r = ctx.run([binp, "0"], input="\n".join(lines) + "\nquit\n", timeout=timeout, env=ENV)
    if r.returncode == 124:
        raise vlib.ToolError("pipe_driver timed out")
    blocks = []
    cur = None
    for l in r.stdout.splitlines():
        if l.startswith("cmd "):
            cur = (l.split()[1:], [])
            blocks.append(cur)
        elif cur is not None:
            cur[1].append(l)
    if blocks and blocks[-1][0] == ["quit"]:
        blocks.pop()
    return blocks, r


def run_batch(ctx, binp, execs, chunk=400):
    """Runs the executions (many per process); fills .blocks/.events/.evline.
    Returns the executions during which the process died: [(exec, rc, stderr)]."""
    crashes = []

    def go(part):
        text = []
        for x in part:
            text += x.lines
        blocks, r = run_lines(ctx, binp, text)
        if r.returncode == 0 and len(blocks) == len(text):
            pos = 0
            for x in part:
                x.blocks = blocks[pos:pos + len(x.lines)]
                pos += len(x.lines)
            return
        if len(part) == 1:
            part[0].blocks = None
            crashes.append((part[0], r.returncode, (r.stderr or "")[-3000:]))
            return
        h = len(part) // 2
        go(part[:h])
        go(part[h:])

    for k in range(0, len(execs), chunk):
        go(execs[k:k + chunk])
    for x in execs:
        if x.blocks is not None:
            x.events, x.evline = parse_exec(x.T, x.lines, x.blocks)
    return crashes


FIELDS = {"Ev": ("p", "k", "fd"), "GotFd": ("p", "fd"), "New": ("p",), "Out": ("p", "s"), "SinkFd": ("s", "fd", "acc", "fl"),
          "SinkIn": ("s", "fl", "now"), "SinkReg": ("s",), "SinkUnreg": ("s",), "SinkCtl": ("s",), "End": ("die",)}


def trace_lines(x):
    """one trace line per command; a run of log messages of one pipe is written once;
    returns (lines, index[line][k] = index in x.events of the k-th event written)"""
    per = [[] for _ in x.lines]
    idx = [[] for _ in x.lines]
    for i, (e, li) in enumerate(zip(x.events, x.evline)):
        if e["e"] == "Ev" and e["k"] == "log" and per[li] and per[li][-1].get("k") == "log" \
                and per[li][-1]["e"] == "Ev" and per[li][-1]["p"] == e["p"]:
            continue
        d = {"e": e["e"]}
        for f in FIELDS.get(e["e"], ()):
            d[f] = e[f]
        per[li].append(d)
        idx[li].append(i)
    return per, idx


def validate(ctx, execs, tag, chunk=8000):
    """-> {index in execs: (event index, property)} for rejected executions
    (one single-pass TLC run per 8 000 executions: the deserialised trace of 20 000 took a 6 GB heap to its limit when two checks ran side by side)."""
    allh = [(i, x) for i, x in enumerate(execs) if x.events is not None]
    bad = {}
    for k in range(0, len(allh), chunk):
        bad.update(validate_part(ctx, allh[k:k + chunk], "%s_%d" % (tag, k // chunk)))
    return bad


def validate_part(ctx, hs, tag):
    if not hs:
        return {}
    path = os.path.join(ctx.build, "%s.ndjson" % tag)
    starts, maps = [], []
    n = 1
    nev = 0
    with open(path, "w") as f:
        for h, (i, x) in enumerate(hs):
            per, idx = trace_lines(x)
            starts.append(n)
            maps.append(idx)
            f.write('{"e":"Reset","hid":%d}\n' % h)
            for evs in per:
                f.write(json.dumps({"e": "Step", "evs": evs}, separators=(",", ":")) + "\n")
                nev += len(evs)
            n += 1 + len(per)
    accepted, res, line = ctx.validate_trace("PipeLife_Trace", "PipeLife_Trace.cfg", path, timeout=1500,
                                             heap="6g", name="trace_" + tag)
    if not accepted:
        raise vlib.ToolError("trace validation did not consume the trace (line %s)\n%s" % (line, res.out[-2000:]))
    m = re.search(r'"TRACE_BAD",\s*\{(.*?)\}\s*>>', res.out, re.S)
    if not m:
        raise vlib.ToolError("trace validation: no TRACE_BAD report\n" + res.out[-2000:])
    bad = {}
    for a, b, c, p in re.findall(r'<<(\d+), (\d+), (\d+), "(\w+)">>', m.group(1)):
        h = int(a)
        li = int(b) - starts[h] - 1
        bad[hs[h][0]] = (maps[h][li][int(c) - 1], p)
    ctx.traces += len(hs)
    ctx.evaluations += nev
    return bad


# ------------------------------------------------------------------ reporting
def describe(x, evi, prop):
    """(what happened, situation) labels for the key - names only, no verdict logic"""
    ev = x.events[evi]
    li = x.evline[evi]
    tok = x.blocks[li][0]
    if prop == "DeadLast":
        what = {"Ev": ev["k"], "SinkIn": "sink-input", "SinkFd": "sink-set_flow_def",
                "SinkReg": "sink-register", "SinkCtl": "sink-control"}.get(ev["e"], ev["e"]) + "-after-dead"
    elif prop == "DeadOnce":
        what = "no-dead" if ev["e"] == "End" else "second-dead"
    elif prop == "ReadyFirst":
        what = ev["k"] + "-before-ready"
    elif prop == "NoDataWhileRejected":
        what = "data-while-rejected"
    else:
        what = "data-without-accepted-flow-def"
    c = tok[0]
    if c in ("rel", "reset"):
        # urefs given to the pipe that it still held when it was released
        given, gone = set(), set()
        for tk, out in x.blocks[:li]:
            for l in out:
                if l.startswith("input u"):
                    given.add(l.split()[1])
                elif l.startswith("uref free u"):
                    gone.add(l.split()[2])
        held = given - gone
        sit = "release-while-holding-input" if held else "release"
    else:
        sit = "during-" + c
    return what, sit


FIXED = ("sink", "env", "new", "newf", "newqsrc", "newqsink", "sub", "subf", "subin", "rel", "reset")


FIXED_ALLOC = ("setfdx", "setfd", "contin", "opt")


def legal(T, lines):
    """the generator's rules (upstream obeys the statement) still hold after removing commands"""
    fd_ok = False
    for l in lines:
        c = l.split()[0]
        if c in ("setfd", "setfdx") and l.split()[1] == T["fdp"]:
            fd_ok = True
        if c in ("in", "ins", "inpic", "insound") and not fd_ok and T["cls"] != "thru":
            return False
        if c in FIXED_ALLOC and l in T["alloc"]:
            continue
    return True


def key_of(x, evi, prop):
    what, sit = describe(x, evi, prop)
    return "%s;%s;%s" % (x.T.get("key", x.T["name"]), what, sit)


def shrink(ctx, binp, wit, tag, rounds=10):
    """Greedy one-command removal on all witnesses at once (one harness run and one TLC
    run per round); a candidate is kept when it is rejected with the same key."""
    wit = list(wit)
    before = ctx.traces
    for rnd in range(rounds):
        cands = []
        for k, (key, prop, w, count, x) in enumerate(wit):
            for j in range(len(w.lines) - 2, -1, -1):     # never the last command (reset)
                if w.lines[j].split()[0] in FIXED or (w.lines[j] in w.T["alloc"] and j < 5 + len(w.T["env"]) + len(w.T["alloc"])):
                    continue
                ls = w.lines[:j] + w.lines[j + 1:]
                if legal(w.T, ls):
                    cands.append((k, Exec(w.T, ls, None, None, None, w.source)))
        if not cands:
            break
        cx = [c for _, c in cands]
        run_batch(ctx, binp, cx)
        bad = validate(ctx, cx, "%s_shrink%d" % (tag, rnd))
        better = {}
        for n, (k, c) in enumerate(cands):
            if n in bad and c.events is not None and key_of(c, *bad[n]) == wit[k][0]:
                evi = bad[n][0]
                cut = c.lines[:c.evline[evi] + 1]
                if cut[-1] != "reset":
                    cut = cut + ["reset"]
                if k not in better or len(cut) < len(better[k]):
                    better[k] = cut
        if not better:
            break
        for k, ls in better.items():
            key, prop, w, count, x = wit[k]
            wit[k] = (key, prop, Exec(w.T, ls, None, None, None, w.source), count, x)
    ctx.traces = before
    return wit


def report(ctx, binp, execs, bad, tag):
    """Groups rejected executions by key, re-runs the shortest witness of each (cut after
    the offending command), validates it again and reports it."""
    groups = {}
    for i, (evi, prop) in bad.items():
        x = execs[i]
        what, sit = describe(x, evi, prop)
        key = "%s;%s;%s" % (x.T.get("key", x.T["name"]), what, sit)
        cut = x.evline[evi]
        g = groups.setdefault(key, [])
        g.append((cut, i, evi, prop))
    wit = []
    for key in sorted(groups):
        cut, i, evi, prop = min(groups[key])
        x = execs[i]
        lines = x.lines[:cut + 1]
        if lines[-1] != "reset":
            lines = lines + ["reset"]
        w = Exec(x.T, lines, None, None, None, "witness of " + x.source)
        wit.append((key, prop, w, len(groups[key]), x))
    if not wit:
        return
    known = set(k.get("key") for k in ctx.known if k.get("property") == ctx.pid and k.get("status") == "known")
    todo = [w for w in wit if w[0] not in known]
    if 0 < len(todo) <= 12:
        todo = shrink(ctx, binp, todo, tag, rounds=6 if ctx.quick else 12)
        wit = [w for w in wit if w[0] in known] + todo
    ws = [w for _, _, w, _, _ in wit]
    crashes = run_batch(ctx, binp, ws, chunk=1)
    if crashes:
        raise vlib.ToolError("witness crashed when re-run alone: %r" % (crashes[0][0].lines,))
    before = ctx.traces
    again = validate(ctx, ws, tag + "_wit")
    ctx.traces = before
    for k, (key, prop, w, count, x) in enumerate(wit):
        if k not in again:
            raise vlib.ToolError("rejected execution did not reproduce (flaky harness?): %s %r" % (key, w.lines))
        evi, prop2 = again[k]
        what2, sit2 = describe(w, evi, prop2)
        if "%s;%s;%s" % (w.T.get("key", w.T["name"]), what2, sit2) != key:
            raise vlib.ToolError("re-run of %s gave a different verdict: %s;%s" % (key, what2, sit2))
        li = w.evline[evi]
        log = []
        for tok, out in w.blocks:
            log.append("> " + " ".join(tok))
            log += ["    " + l[:100] for l in out if not l.startswith("ret")]
        ctx.violation(key,
                      "pipe type %s: %s (property %s of PipeLifeMon) during '%s' of the script %s "
                      "(%d executions of this run rejected with this key)"
                      % (w.T.get("key", w.T["name"]), what2, prop2, " ".join(w.blocks[li][0]), w.lines, count),
                      {"cmd": "pipe_driver", "type": w.T["name"], "stdin": w.lines, "property": prop2,
                       "offending_event": w.events[evi], "log": log[-60:], "source": x.source})


def report_crash(ctx, binp, x, rc, stderr):
    lines = x.lines
    summ = "exit status %d" % rc
    for l in stderr.splitlines():
        if l.startswith("SUMMARY:") or "runtime error:" in l or "Assertion" in l:
            summ = l.strip()[:300]
            break
    cmds = ",".join(l.split()[0] for l in lines if l.split()[0] not in ("sink", "env", "reset"))
    ctx.violation("%s;crash;%s" % (x.T["name"], cmds),
                  "pipe type %s: the real code dies (%s) during the legal command script %s; the execution "
                  "cannot be completed into any trace the specification accepts" % (x.T["name"], summ, lines),
                  {"cmd": "pipe_driver", "type": x.T["name"], "stdin": lines, "stderr": stderr[-2500:],
                   "source": x.source})


# --------------------------------------------------------------- spec -> code
def compare_thru(ctx, x):
    """Compares, command by command, the observations of a thru execution with TLC's
    prediction. Returns None or (step index, predicted, observed)."""
    T = x.T
    fdmap = {}
    for n, h in T["fd"].items():
        fdmap[fd_defstring(h)] = n
    per = {}
    for ev, li in zip(x.events, x.evline):
        st = x.owner[li]
        c = comparable(ev, fdmap)
        if c is not None and ev is not None and st >= 0:
            per.setdefault(st, []).append(c)
    for i, (to, cmd, obs) in enumerate(x.steps):
        pred = []
        if cmd["e"] == "Out":
            pred.append(("Out", cmd["p"], cmd["s"]))
        for o in obs:
            c = comparable(o, {})
            if c is not None and not (o["e"] == "Ev" and o["k"] == "log"):
                pred.append(c)
        got = per.get(i, [])
        if pred != got:
            return i, pred, got
    return None


def select(rng, scripts, nshort, nrand):
    if len(scripts) <= nshort + nrand:
        return list(scripts)
    head = scripts[:nshort]
    rest = scripts[nshort:]
    idx = set()
    while len(idx) < nrand:
        idx.add(rng.below(len(rest)))
    return head + [rest[i] for i in sorted(idx)]


def make_execs(T, scripts, source):
    res = []
    for steps, edge in scripts:
        c = concretise(T, steps)
        if c is None:
            continue
        res.append(Exec(T, c[0], c[1], steps, edge, source))
    return res


# ----------------------------------------------------------- random scripts
def random_script(rng, T, n):
    """A long legal command script for type T (the application and the upstream obey the
    statement: input only after an accepted flow definition, nothing after release)."""
    lines = ["sink s1", "sink s2", "sink s3", "env fltag on"] + list(T["env"]) + list(T["alloc"])
    pol = {1: True, 2: True, 3: True}
    fd_ok = False
    nin = 0
    live_sinks = [1, 2, 3]
    for _ in range(n):
        r = rng.below(100)
        if r < 14:
            lines.append(setfd_line(T, rng.choice(["A", "B"])))
            fd_ok = True
            if T["cls"] != "thru" and rng.chance(1, 2):
                lines += ["provall s%d" % k for k in live_sinks]
        elif r < 50:
            if fd_ok and (T["data"] or T["cls"] == "thru"):
                for _ in range(1 + rng.below(3)):
                    nin += 1
                    lines += in_lines(T, nin)
            else:
                lines.append("loop 2")
        elif r < 64:
            s = rng.below(len(live_sinks) + 1)
            lines.append("out %s %s" % (T["outp"], "null" if s == len(live_sinks) else "s%d" % live_sinks[s]))
        elif r < 74:
            s = rng.choice([1, 2, 3])
            pol[s] = not pol[s]
            lines.append("policy s%d %s" % (s, "accept" if pol[s] else "reject"))
        elif r < 80:
            lines.append("arm %s s%d" % (T["outp"], rng.choice(live_sinks)))
        elif r < 83:
            lines.append("getfd %s" % T["outp"])
        elif r < 86:
            if T["cls"] != "thru" and rng.chance(1, 2):
                lines.append("provall s%d" % rng.choice(live_sinks))
            lines.append("loop %d" % (1 + rng.below(4)))
        elif r < 90:
            lines.append("flush %s" % T["inp"])
        elif r < 94:
            o = T["optfd"] or T["opt"]
            if o:
                lines.append("opt p0 set %s %s" % (o[0], o[1 + rng.below(len(o) - 1)]))
            else:
                lines.append("tick 27000")
        elif r < 97:
            lines.append("tick %d" % (27000 * (1 + rng.below(50))))
        else:
            break
    order = list(T["rel"])
    if len(order) > 1 and rng.chance(1, 2):
        order.reverse()
    lines += ["rel %s" % p for p in order]
    lines += ["loop 4", "reset"]
    return lines


def directed_scripts(T):
    """Situations that the random walk meets too rarely: a sink that answers requests from inside
    register_request, a new output connected while buffers are held for a pending request, a
    flow definition that changes the request but not the output definition."""
    if T["cls"] == "thru" and T["name"] != "idem":
        return []
    pre = ["sink s1", "sink s2", "sink s3", "env fltag on"] + list(T["env"]) + list(T["alloc"])
    out = lambda k: "out %s s%d" % (T["outp"], k)
    can = T["data"] or T["cls"] == "thru"
    n = [0]

    def ins(k):
        ls = []
        for _ in range(k if can else 0):
            n[0] += 1
            ls += in_lines(T, n[0])
        return ls or ["loop 1"]
    rel = ["rel %s" % p for p in T["rel"]] + ["loop 4", "reset"]
    A, B = setfd_line(T, "A"), setfd_line(T, "B")
    res = []
    n[0] = 0
    res.append(pre + [out(1), A, "provall s1"] + ins(2) + [B] + ins(2) + ["reqmode s2 answer", out(2)] + ins(2) + ["provall s2", "loop 2"] + rel)
    n[0] = 0
    res.append(pre + ["reqmode s1 answer", out(1), A] + ins(2) + [B] + ins(1) + [out(2)] + ins(2) + ["provall s2"] + ins(1) + [out(1)] + ins(1) + rel)
    n[0] = 0
    res.append(pre + [A, "reqmode s1 answer", "reqmode s2 answer"] + ins(2) + [out(1)] + ins(1) + [B, out(2)] + ins(2) + [A] + ins(1) + rel)
    # (never: a sink that answers at once connected by the probe, or a set_flow_def, while the pipe is
    # draining what it held - the nested check() releases the self-reference twice in some 35 pipe types:
    # the recorded finding of C01, which would only drown this check's verdict)
    n[0] = 0
    res.append(pre + [out(1), A] + ins(3) + ["reqmode s1 answer", "reqmode s2 answer", out(2), "loop 2", B, "provall s1", out(1)] + ins(2) + ["flush %s" % T["inp"], out(3), "reqmode s3 answer"] + ins(1) + rel)
    return res


# ------------------------------------------------------------------ self-check
def selfcheck(ctx, binp):
    """Template sanity (tool check, no verdict): every type must allocate; a type that refuses the
    flow definitions of its template is driven without data (life cycle and controls only)."""
    xs = []
    for T in TYPES:
        lines = ["sink s1", "sink s2"] + T["env"] + T["alloc"] + [setfd_line(T, "A"), setfd_line(T, "B"), "reset"]
        xs.append(Exec(T, lines, None, None, None, "self-check"))
    crashes = run_batch(ctx, binp, xs, chunk=len(xs))
    if crashes:
        raise vlib.ToolError("self-check script dies on type %s: %s" % (crashes[0][0].T["name"], crashes[0][2][-800:]))
    nodata = []
    for x in xs:
        rets = {}
        for tok, out in x.blocks:
            r = [l for l in out if l.startswith("ret ")]
            rets.setdefault(tok[0], []).append(r[-1].split()[1] if r else "?")
        for c in ("new", "newf", "newqsrc", "newqsink", "sub"):
            if any(v != "0" for v in rets.get(c, [])):
                raise vlib.ToolError("template of type %s does not allocate: %s" % (x.T["name"], rets))
        fds = rets.get("setfd", []) + rets.get("setfdx", [])
        if any(v != "0" for v in fds):
            if x.T["cls"] == "thru":
                raise vlib.ToolError("thru type %s refuses its flow definitions: %s" % (x.T["name"], fds))
            x.T["data"] = False
            x.T["fd_refused"] = True
            nodata.append(x.T["name"])
    return nodata


# --------------------------------------------------------------------- replay
def replay(ctx, rp):
    """bin/check C04 --replay replays/C04_xxx.json"""
    binp = build(ctx)
    r = rp["replay"]
    x = Exec(type_by_name(r["type"]), r["stdin"], None, None, None, "replay")
    crashes = run_batch(ctx, binp, [x], chunk=1)
    if crashes:
        print("VIOLATION property=C04 reproduced: the harness dies: rc=%d\n%s" % (crashes[0][1], crashes[0][2][-1500:]))
        return 1
    for tok, out in x.blocks:
        print("> " + " ".join(tok))
        for l in out:
            print("    " + l[:140])
    bad = validate(ctx, [x], "replay")
    if bad:
        evi, prop = bad[0]
        what, sit = describe(x, evi, prop)
        print("VIOLATION property=C04 reproduced: %s;%s;%s (%s) at event %s" %
              (x.T["name"], what, sit, prop, json.dumps(x.events[evi])))
        return 1
    print("OK property=C04 replay not reproduced (history accepted)")
    return 0


# ------------------------------------------------------------------------ run
NEG = [("no_reset_on_set_output", "FlowDefBeforeData"), ("no_reset_on_flow_change", "FlowDefBeforeData"),
       ("ignore_reject", "NoDataWhileRejected"), ("log_after_dead", "DeadLast"),
       ("late_ready", "ReadyFirst"), ("dead_twice", "DeadOnce"),
       ("silent_flow_change", "FlowDefBeforeData")]
ACTIONS = ["New", "SetFd", "OptFd", "In", "Out", "Policy", "Arm", "Rel", "End"]   # Plain only makes self-loops: guarded below


def run(ctx):
    import time
    rng = vlib.Rng(ctx.seed * 104729 + 4)
    tm = {}
    t0 = time.time()

    def lap(name):
        nonlocal t0
        tm[name] = round(tm.get(name, 0) + time.time() - t0, 1)
        t0 = time.time()
    ctx.extra["timing_s"] = tm
    ctx.trusted += ["TLC", "harness/pipe_driver.c + pipe_registry.c (recording probe, recording sinks, tracking uref manager)",
                    "harness/pd_ext_c04.c", "harness/vloop.c (mock event loop over the real upump_common.c)",
                    "harness/shim/bitstream (clean-room biTStream subset for lib/upipe-ts)"]
    binp = build(ctx)
    lap("build")
    refused = selfcheck(ctx, binp)

    # 1. exhaustive model + edges
    res = ctx.tlc("PipeLife", "MCPipeLife.cfg", workers=1, coverage=True, timeout=600)
    ctx.model_must_hold(res, "PipeLife")
    ctx.require_coverage(res, ACTIONS)
    ctx.exhaustive = True
    edges = res.beh("EDGE")
    g = Graph(edges)
    if len(edges) + len(g.inits) != res.generated:
        raise vlib.ToolError("edge enumeration incomplete: %d EDGE lines, %d states generated" % (len(edges), res.generated))
    if len(g.nodes) != res.distinct:
        raise vlib.ToolError("graph reconstruction: %d nodes, TLC found %d distinct states" % (len(g.nodes), res.distinct))
    # vacuity of the helper's branches (they are operators, not actions)
    seen = set()
    for e in edges:
        o = e["obs"]
        fds = [x for x in o if x["e"] == "SinkFd"]
        if any(not x["acc"] for x in fds):
            seen.add("refused")
        if len(fds) == 2:
            seen.add("retry")
        if len(fds) == 2 and fds[1]["acc"]:
            seen.add("retry_accepted")
        if any(x["e"] == "Drop" for x in o):
            seen.add("drop")
        if any(x["e"] == "Out" for x in o):
            seen.add("probe_connects")
        if any(x["e"] == "Ev" and x["k"] == "new_flow_def" for x in o) and e["cmd"]["e"] == "OptFd":
            seen.add("option_changes_flow")
        if e["cmd"]["e"] == "SetFd" and not o and e["from"]["fdin"] != "none":
            seen.add("equal_flow_def")
        if e["cmd"]["e"] in ("Opt", "Flush", "Loop", "GetFd"):
            seen.add("plain_" + e["cmd"]["e"])
    need = {"refused", "retry", "retry_accepted", "drop", "probe_connects", "option_changes_flow", "equal_flow_def",
            "plain_Opt", "plain_Flush", "plain_Loop", "plain_GetFd"}
    if need - seen:
        raise vlib.ToolError("vacuity: branches of the model never taken: %s" % sorted(need - seen))
    ctx.extra["state_graph"] = {"states": len(g.nodes), "edges": len(edges), "branches_seen": sorted(seen)}

    lap("model")
    # 2. negative configurations
    negs = [NEG[(ctx.seed + k) % len(NEG)] for k in (0, 2, 3)] if ctx.quick else NEG
    for v, inv in negs:
        r = ctx.tlc("PipeLife", "MCPipeLife_neg_%s.cfg" % v, workers=1, count=False, timeout=300)
        if inv not in r.violated:
            raise vlib.ToolError("vacuity: broken variant %s not rejected by %s (violated=%s)" % (v, inv, r.violated))
    ctx.extra["negative_configs_rejected"] = [v for v, _ in negs]

    lap("negative")
    scripts = {False: g.edge_scripts(False), True: g.edge_scripts(True)}

    # 3. + 4.
    all_execs = []
    stats = {}
    mism = []
    for T in TYPES:
        sc = scripts[bool(T["optfd"])]
        if T["cls"] == "thru":
            if ctx.quick:
                chosen = sc if T["name"] == "idem" else select(rng, sc, 120, 180)
            else:
                chosen = sc
        else:
            chosen = select(rng, sc, 90, 40) if ctx.quick else select(rng, sc, 400, 1400)
        xs = make_execs(T, chosen, "edge walk")
        nr = (6 if ctx.quick else 200)
        for k in range(nr):
            xs.append(Exec(T, random_script(rng, T, 10 + rng.below(50)), None, None, None, "random script"))
        for ls in directed_scripts(T):
            xs.append(Exec(T, ls, None, None, None, "directed script"))
        crashes = run_batch(ctx, binp, xs)
        for x, rc, err in crashes:
            report_crash(ctx, binp, x, rc, err)
        ncmp = 0
        if T["cls"] == "thru":
            for x in xs:
                if x.steps is None or x.events is None:
                    continue
                d = compare_thru(ctx, x)
                ncmp += len(x.steps)
                if d is not None:
                    mism.append((len(x.lines), x, d))
        ctx.evaluations += ncmp
        stats[T["name"]] = {"class": T["cls"], "scripts": len(xs), "commands": sum(len(x.lines) for x in xs),
                            "predicted_commands_compared": ncmp,
                            "buffers_fed": sum(1 for x in xs if x.events for e in x.events if e["e"] == "In"),
                            "buffers_delivered": sum(1 for x in xs if x.events for e in x.events if e["e"] == "SinkIn"),
                            "delivered_with_flow_tag": sum(1 for x in xs if x.events for e in x.events
                                                           if e["e"] == "SinkIn" and e["fl"] and e["now"])}
        all_execs += xs
    ctx.extra["per_type"] = stats
    lap("harness")

    # trace validation of everything that ran (thru edge walks: a sample in the quick tier)
    tv = []
    for x in all_execs:
        if x.events is None:
            continue
        if x.T["cls"] == "thru" and x.source == "edge walk":
            # already compared command by command with TLC's prediction: the monitor sees a sample
            n = (40 if x.T["name"] == "idem" else 5) if ctx.quick else 3
            if rng.below(n) != 0:
                continue
        tv.append(x)
    # vacuity of the trace validation: a corrupted copy of an accepted execution (one acceptance
    # of a flow definition turned into a refusal, the buffer that follows left in place)
    corrupt = None
    for x in tv:
        if x.T["cls"] == "thru" and x.source == "edge walk":
            ks = [k for k, e in enumerate(x.events) if e["e"] == "SinkFd" and e["acc"]
                  and k + 1 < len(x.events) and x.events[k + 1]["e"] == "SinkIn"]
            if ks:
                corrupt = Exec(x.T, x.lines, x.owner, x.steps, x.edge, "corrupted copy")
                corrupt.blocks = x.blocks
                corrupt.events = [dict(e) for e in x.events]
                corrupt.evline = list(x.evline)
                corrupt.events[ks[0]]["acc"] = False
                break
    if corrupt is None:
        raise vlib.ToolError("no execution with an accepted flow definition followed by a buffer to corrupt")
    tv.append(corrupt)
    bad = validate(ctx, tv, "all")
    cb = bad.pop(len(tv) - 1, None)
    tv.pop()
    ctx.traces -= 1
    if cb is None or cb[1] != "NoDataWhileRejected":
        raise vlib.ToolError("vacuity: the corrupted copy of an accepted trace was not rejected (%r)" % (cb,))
    ctx.extra["corrupted_trace_rejected"] = {"type": corrupt.T["name"], "script": corrupt.lines, "property": cb[1]}
    ctx.extra["executions_validated"] = len(tv)
    ctx.extra["executions_rejected"] = len(bad)
    lap("validate")
    report(ctx, binp, tv, bad, "all")
    lap("witnesses")

    # disagreement with the detailed model on thru types
    ctx.extra["thru_mismatches"] = len(mism)
    if mism:
        mism.sort(key=lambda m: m[0])
        n, x, (i, pred, got) = mism[0]
        # the execution must also be rejected by the abstract specification to be a violation
        w = Exec(x.T, x.lines, x.owner, x.steps, x.edge, "mismatch witness")
        run_batch(ctx, binp, [w], chunk=1)
        d2 = compare_thru(ctx, w) if w.events is not None else None
        if d2 is None or d2[0] != i:
            raise vlib.ToolError("prediction mismatch did not reproduce: %r" % (x.lines,))
        before = ctx.traces
        b2 = validate(ctx, [w], "mism")
        ctx.traces = before
        ctx.extra["model_drift"] = True
        ctx.extra["model_drift_first"] = {"type": x.T["name"], "script": x.lines, "step": i,
                                          "command": x.steps[i][1]["e"], "predicted": pred, "observed": got,
                                          "rejected_by_abstract_monitor": bool(b2)}
        ctx.notes.append("a thru type disagrees with the detailed helper model (model drift): the abstract "
                         "monitor decides; see model_drift_first")
        if b2:
            report(ctx, binp, [w], b2, "mism")
    else:
        ctx.extra["model_drift"] = False

    covered = sorted(set(t.get("key", t["name"]) for t in TYPES))
    ctx.extra["pipes_covered"] = len(covered)
    ctx.extra["pipes_covered_with_data"] = len(set(t.get("key", t["name"]) for t in TYPES if t["data"]))
    ctx.extra["types_driven_without_data"] = sorted(t["name"] for t in TYPES if not t["data"])
    ctx.extra["types_refusing_template_flow_def"] = refused
    ctx.extra["pipes_buildable"] = BUILDABLE
    ctx.extra["pipes_buildable_definition"] = BUILDABLE_NOTE
    ctx.extra["covered_types"] = covered
    ctx.extra["thru_types"] = [t["name"] for t in TYPES if t["cls"] == "thru"]
    for x in all_execs:
        if x.events is not None and x.source == "edge walk" and len(x.lines) > 9:
            ctx.sample({"type": x.T["name"], "script": x.lines,
                        "events": [e for e in x.events if e["e"] not in ("Cmd",)][:40]})
            break
    ctx.assumptions += [
        "one pipe under test per execution (plus its sub-pipes), connected to recording sinks; bins are "
        "judged on their outer events only (events of inner pipes are ignored)",
        "the application and the upstream obey the statement themselves: no input before a flow definition "
        "was accepted by the pipe (except on thru types, to reach the helper's 'no flow def' branch), no "
        "command on a released pipe",
        "a flow definition is 'changed' when the pipe throws new_flow_def; flow definitions are identified "
        "by their def string",
        "'dead exactly once' is demanded at the end of an execution (everything released, mock loop run) "
        "for all types except those that deliberately keep themselves alive while holding input: %s"
        % [t["name"] for t in TYPES if not t["dies"]],
    ]
