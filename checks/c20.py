"""C20 - getters report what setters stored and do not change the pipe.

1. TLC checks spec/Options.tla (one option of one pipe, twin runs A/B/C inside
   one behaviour) exhaustively for scripts of <= 6 (thorough: 8) commands over
   3 accepted + 2 rejected values, the getter and inputs, with a coverage
   guard, and must reject six deliberately broken variants of a getter /
   setter pair - each by the abstract invariant that is also evaluated on the
   traces of the real code.
2. spec -> code: TLC emits every script of 4 (thorough: 5) commands and random
   scripts of 10 commands with the results the specification predicts (return
   class of every setter call, value returned by every getter call); they are
   instantiated for every getter/setter pair of the registry below (values of
   the model mapped onto values the real setter accepts / rejects, measured by
   a calibration run on fresh pipes), executed on the real pipes by
   harness/pipe_driver.c + harness/pd_ext_c20.c (ASan + UBSan) and compared
   answer by answer.
3. code -> spec: the replayed behaviours and seeded random scripts (all values
   of the palette, bursts of getters, more inputs) are recorded as twin runs
   (A: everything, B: without the getter calls, C: without the rejected setter
   calls as well) and validated by spec/Options_Trace.tla: GetReturnsLast,
   GetterNeutral, RejectNeutral, SameAnswers in every state.
A violation is reported only for an execution of the real code that TLC
rejects and that is rejected again after being re-run in a fresh process; the
key names the pipe, the accessor and the kind of slip, not the data.
"""
import json, os, re, threading
import vlib
from checks import pipecommon

LEVEL = "model_checking"
ENV = {"ASAN_OPTIONS": "detect_leaks=0:abort_on_error=0:exitcode=97",
       "UBSAN_OPTIONS": "print_stacktrace=1:halt_on_error=1:exitcode=98"}
EXTRA_MODULES = ["multicat_probe", "buffer", "time_limit", "rate_limit", "trickplay", "discard_blocking",
                 "queue_source", "queue_sink", "queue", "even", "stream_switcher", "crop", "videocont",
                 "file_sink", "file_source", "multicat_sink"]
EXTRA = ["vloop.c", "lib/upipe/uref_pic_flow.c", "lib/upipe/uuri.c", "lib/upipe/uref_uri.c", "lib/upipe/ustring.c",
         "lib/upipe/uprobe_prefix.c", "lib/upipe-ts/upipe_ts_sync.c", "lib/upipe-ts/upipe_ts_check.c"]
TRACE_MULTI = ("Options_Trace", "MCOptions_trace_multi.cfg")
TRACE_ONE = ("Options_Trace", "Options_Trace.cfg")
NEGATIVE = {"get_writes_option": "GetReturnsLast", "get_no_write": "GetReturnsLast",
            "get_resets_aux": "GetterNeutral", "reject_stores": "GetReturnsLast|RejectNeutral",
            "reject_stores_used": "RejectNeutral", "accept_drops": "GetReturnsLast"}


def source_digest(srcs):
    """sha1 over the CONTENT of everything the driver is compiled from: the
    listed sources, every header of the repository copy under test and of the
    harness (a mutated file gives another digest)."""
    import hashlib, glob
    files = []
    for s in srcs:
        p = s if os.path.isabs(s) else (os.path.join(vlib.HARNESS, s) if os.path.exists(os.path.join(vlib.HARNESS, s))
                                        else os.path.join(vlib.REPO, s))
        files.append(p)
    for pat in ("include/*/*.h", "include/*/*/*.h", "lib/*/*.h", "config.h", "include/upipe/config.h"):
        files += glob.glob(os.path.join(vlib.REPO, pat))
    if os.path.realpath(vlib.REPO) != "/repo":
        files += ["/repo/config.h", "/repo/include/upipe/config.h"]
    files += glob.glob(os.path.join(vlib.HARNESS, "*.h")) + glob.glob(os.path.join(vlib.HARNESS, "shim/*/*/*.h"))
    h = hashlib.sha1(" ".join(vlib.BASE_CFLAGS).encode())
    for p in sorted(set(files)):
        try:
            with open(p, "rb") as f:
                h.update(p.encode() + b"\0" + f.read())
        except OSError:
            h.update(p.encode() + b"\0missing")
    return h.hexdigest()[:20]


def build(ctx):
    """pipe_driver + pd_ext_c20.c + the modules under test, ASan + UBSan; the
    source list comes from pipecommon, compiled in parallel.  The binary is
    kept under build/C20cache keyed by the digest of all its sources
    (C20_NOCACHE=1 forces a rebuild)."""
    import shutil
    srcs = pipecommon.driver_sources(extra_modules=EXTRA_MODULES, extra=EXTRA, exts=["pd_ext_c20.c"])
    cache = os.path.join(vlib.ROOT, "build", "C20cache")
    cached = os.path.join(cache, "pipe_driver_c20_" + source_digest(srcs))
    out = os.path.join(ctx.build, "pipe_driver_c20")
    if os.path.exists(cached) and not os.environ.get("C20_NOCACHE"):
        shutil.copy(cached, out)
        ctx.extra["driver_build"] = "cached"
        return out
    flags = ["-I", vlib.HARNESS + "/shim"]
    objs = ctx.cc_objs(srcs, flags=flags, san="asan", tag="c20o")
    binp = ctx.cc("pipe_driver_c20", objs, san="asan", libs=["-lm"])
    ctx.extra["driver_build"] = "compiled"
    try:
        os.makedirs(cache, exist_ok=True)
        old = sorted(os.listdir(cache), key=lambda f: os.path.getmtime(os.path.join(cache, f)))
        for f in old[:-3]:
            os.remove(os.path.join(cache, f))
        tmp = cached + ".%d" % os.getpid()
        shutil.copy(binp, tmp)
        os.rename(tmp, cached)
    except OSError:
        pass
    return binp


# ------------------------------------------------------------------ registry
class Opt:
    """One getter/setter pair: how to allocate the pipe, the palette of values
    given to the setter, how the k-th input is fed, how the run ends."""
    def __init__(self, pipe, opt, values, inp=None, setup=None, end=None, target="p0", datapath=True,
                 new=None, fd="block.A.", weight=1.0):
        self.pipe, self.opt, self.values, self.target = pipe, opt, values, target
        self.weight = weight              # share of the executions (same helper code in many pipes: less)
        self.name = "%s.%s" % (pipe, opt)
        self.inp = inp or (lambda k: ["c20in p0 %d 4" % k])
        if setup is None:
            setup = ["new x0 xsink", "new p0 c.%s" % (new or pipe), "opt p0 set output x0"]
            if fd:
                setup.append("opt p0 set flow_def " + fd)
        self.setup = setup
        self.end = end or ["rel p0", "rel x0"]
        self.datapath = datapath          # False: the inputs do not exercise the option
        self.default = None               # measured
        self.acc, self.rej = [], []       # measured

    def set_line(self, v):
        return "opt %s set %s %s" % (self.target, self.opt, v)

    def get_line(self):
        return "opt %s get %s" % (self.target, self.opt)


def ts_in(k):
    return ["c20in p0 %d ts:2" % k]


def refd(inp=None, fd="block.A.", sizes=(7, 188, 3)):
    """Every other input is preceded by the flow definition sent again, this time announcing a block size: an
    accepted set_flow_def is not a setter of the option under test and must leave it alone."""
    base = inp or (lambda k: ["c20in p0 %d 4" % k])

    def f(k):
        pre = ["opt p0 set flow_def %s@%d" % (fd, sizes[(k // 2) % len(sizes)])] if k % 2 == 1 else []
        return pre + base(k)
    return f


def dated(size=4, step=20000):
    def f(k):
        return ["c20in p0 %d %d cr_sys=%d cr_prog=%d dp=5 cd=7" % (k, size, 1000000 + k * step, 500 + k * 900)]
    return f


def pumped(size=8, n=1, adv=4000, step=9000):
    def f(k):
        l = []
        for j in range(n):
            l.append("c20in p0 %d %d cr_sys=%d" % (k * 10 + j, size, 1000000 + k * step + j))
        return l + ["c20run", "c20adv %d" % adv]
    return f


OUT_SETUP = lambda t: ["new x0 xsink", "new x1 xsink", "new p0 c.%s" % t, "opt p0 set flow_def block.A."]
OUT_END = ["rel p0", "rel x0", "rel x1"]
QS_SETUP = ["new x0 xsink", "new x1 xsink", "new q0 c.qsrc", "opt q0 set output x0", "new p0 c.qsink",
            "opt p0 set flow_def block.A."]
QS_END = ["rel p0", "c20run", "rel q0", "c20run", "c20adv 200000000", "rel x0", "rel x1"]
# a pipe holding buffers stays alive until its pump has let them out
PUMP_END = ["rel p0", "c20run", "c20adv 200000000", "c20run", "rel x0"]


def registry(workdir=None):
    U64 = "18446744073709551615"
    R = [
        Opt("skip", "offset", ["3", "1", "5", "0", "8", "2", "2147483648", "4294967301", "9223372036854775807"], inp=refd(lambda k: ["c20in p0 %d 8" % k])),
        Opt("delay", "delay", ["100", "2000", "-50", "0", "27000000"],
            inp=lambda k: ["c20in p0 %d 4 pts_prog=%d pts_sys=%d dp=10" % (k, 1000 * k, 50000 + k)]),
        # align 1 only: with another alignment the flush of the real pipe does not
        # terminate when less than `align` octets remain (DESIGN.md S4, property C14)
        Opt("chunk_stream", "mtu", ["4,1", "6,1", "9,1", "5,1", "0,1", "4,4", "3,0", "2,5"],
            inp=refd(lambda k: ["c20in p0 %d 8" % k])),
        Opt("agg", "output_size", ["8", "12", "20", "5", "1316"], inp=refd()),
        Opt("setattr", "dict", ["T1", "T2", "T3", "none", "Dq"], inp=refd()),
        Opt("setflowdef", "dict", ["T1", "Dq", "Dr", "none", "T2"]),
        Opt("setrap", "rap", ["1000", "5000", "0", U64, "999999"], inp=dated()),
        Opt("genaux", "getattr", ["cr_prog", "pts_sys", "dts_prog", "cr_sys", "pts_orig", "null", "bogus"],
            inp=dated()),
        Opt("multicat_probe", "rotate", ["1000,0", "500,100", "1000,7", "27000,5", "1,0", "0,0", "0,7"], inp=dated(step=700)),
        Opt("ts_sync", "sync", ["2", "3", "5", "4", "1", "0", "-1"], inp=ts_in),
        Opt("ts_sync", "output_size", ["188", "204", "94", "376"], inp=ts_in),
        Opt("ts_check", "output_size", ["188", "94", "47", "376"], inp=ts_in),
        Opt("buffer", "max_size", ["16", "64", "1000", "0", "8"], inp=pumped(), end=PUMP_END),
        Opt("buffer", "low", ["8", "16", "100", "0"], inp=pumped(), end=PUMP_END,
            setup=["new x0 xsink", "new p0 c.buffer", "opt p0 set output x0", "opt p0 set flow_def block.A.",
                   "opt p0 set max_size 1000"]),
        Opt("buffer", "high", ["8", "16", "100", "0"], inp=pumped(), end=PUMP_END,
            setup=["new x0 xsink", "new p0 c.buffer", "opt p0 set output x0", "opt p0 set flow_def block.A.",
                   "opt p0 set max_size 1000"]),
        Opt("time_limit", "limit", ["1000", "27000", "5000000", "0", U64], inp=pumped(step=30000), end=PUMP_END),
        Opt("rate_limit", "limit", ["100", "1000", "27000000", "1", U64], inp=pumped(n=2), end=PUMP_END),
        Opt("rate_limit", "duration", ["27000", "270000", "2700000", "27000000"], inp=pumped(n=2), end=PUMP_END,
            setup=["new x0 xsink", "new p0 c.rate_limit", "opt p0 set output x0", "opt p0 set flow_def block.A.",
                   "opt p0 set limit 1000"]),
        Opt("disblo", "max_length", ["0", "1", "2", "5"], inp=pumped(n=3), end=PUMP_END),
        Opt("qsink", "max_length", ["0", "1", "3", "7"], setup=QS_SETUP, end=QS_END, inp=pumped(n=2)),
        Opt("qsink", "output", ["x1", "x0", "null", "q0"], setup=QS_SETUP, end=QS_END, inp=pumped(n=1)),
        Opt("trickp", "rate", ["1/1", "2/1", "1/2", "0/1", "3/2"], datapath=False,
            setup=["new p0 c.trickp"], end=["rel p0"], inp=lambda k: ["c20run"]),
        Opt("videocont", "input", ["a", "bb", "none", "c"], datapath=False,
            setup=["new p0 c.videocont"], end=["rel p0"], inp=lambda k: ["c20run"]),
        Opt("videocont", "tolerance", ["0", "1000", "27000000", "5"], datapath=False,
            setup=["new p0 c.videocont"], end=["rel p0"], inp=lambda k: ["c20run"]),
        Opt("videocont", "latency", ["0", "1000", "27000000", "5"], datapath=False,
            setup=["new p0 c.videocont"], end=["rel p0"], inp=lambda k: ["c20run"]),
        Opt("crop", "rect", ["0,0,0,0", "2,2,2,2", "4,0,0,4", "2,2,2,4", "8,8,0,0", "40,0,0,0", "0,0,20,0"],
            setup=["new x0 xsink", "new p0 c.crop", "opt p0 set output x0", "c20fd p0 pic:32,16"],
            inp=lambda k: ["c20fd p0 pic:%d,16" % (32 + 2 * (k % 2))]),
    ]
    FILES = ["c20file f1 000102030405060708090a0b0c0d0e0f101112131415161718191a1b1c1d1e1f", "c20file f2 f0f1f2f3f4f5f6f7f8f9",
             "c20file f3 a0a1a2a3a4a5"]
    FSRC = FILES + ["new x0 xsink", "new p0 c.fsrc", "opt p0 set output x0"]
    FEND = ["rel p0", "c20run", "c20adv 200000000", "c20run", "c20ls"]
    R += [
        Opt("fsink", "path", ["f1", "f2", "none", "f3", "f1,x", "nodir/f"], inp=pumped(size=4),
            setup=["new p0 c.fsink", "opt p0 set flow_def block.A."], end=FEND),
        Opt("fsink", "sync_period", ["0", "1000", "27000", "5"], inp=pumped(size=4),
            setup=["new p0 c.fsink", "opt p0 set flow_def block.A.", "opt p0 set path f1"], end=FEND),
        Opt("fsink", "max_length", ["0", "1", "3", "7"], inp=pumped(size=4),
            setup=["new p0 c.fsink", "opt p0 set flow_def block.A.", "opt p0 set path f1"], end=FEND),
        Opt("fsrc", "uri", ["f1", "f2", "f3", "missing", "nodir/f"], setup=FSRC, end=["rel p0", "rel x0"],
            inp=lambda k: ["c20run 1"]),
        Opt("fsrc", "output_size", ["4", "8", "16", "5"], setup=FSRC + ["opt p0 set uri f1"], end=["rel p0", "rel x0"],
            inp=lambda k: ["c20run 1"]),
        # position and range are live values of a source (reading moves them): no reading in these scripts
        Opt("fsrc", "position", ["0", "4", "10", "31", "9223372036854775813"], setup=FSRC + ["opt p0 set uri f1"], end=["rel p0", "rel x0"],
            inp=lambda k: ["c20run 0"], datapath=False),
        Opt("fsrc", "range", ["0,8", "4,4", "4,8", "2,16", "30,1", "9223372036854775813,16"], setup=FSRC + ["opt p0 set uri f1"], end=["rel p0", "rel x0"],
            inp=lambda k: ["c20run 0"], datapath=False),
        Opt("multicat_sink", "rotate", ["1000,0", "500,100", "1000,7", "27000,5", "2,0", "1,0", "0,0"], inp=pumped(size=4, step=700),
            setup=["new p0 c.multicat_sink", "opt p0 set flow_def block.A.", "opt p0 set path a_,.x"], end=FEND),
        Opt("multicat_sink", "path", ["a_,.x", "b_,.y", "a_,.y", "none", "c_,.z"], inp=pumped(size=4, step=700),
            setup=["new p0 c.multicat_sink", "opt p0 set flow_def block.A.", "opt p0 set rotate 1000,0"], end=FEND),
        Opt("multicat_sink", "sync_period", ["0", "1000", "27000", "5"], inp=pumped(size=4, step=700),
            setup=["new p0 c.multicat_sink", "opt p0 set flow_def block.A.", "opt p0 set rotate 1000,0",
                   "opt p0 set path a_,.x"], end=FEND),
    ]
    for t in ("idem", "skip", "agg", "delay", "setattr", "chunk_stream", "genaux", "ts_sync", "setrap",
              "multicat_probe"):
        R.append(Opt(t, "output", ["x0", "x1", "null"], setup=OUT_SETUP(t), end=OUT_END, weight=0.4,
                     inp=dated(size=8) if t != "ts_sync" else ts_in))
    for t in ("idem", "skip", "delay", "setattr", "setrap", "probe_uref", "noclock"):
        R.append(Opt(t, "flow_def", ["block.B.", "block.C.x.", "block.A.", "pic.", "null"],
                     setup=["new x0 xsink", "new p0 c.%s" % t, "opt p0 set output x0"], inp=dated(), weight=0.4))
    for t in ("even", "stream_switcher", "trickp"):
        R.append(Opt(t + "_sub", "max_length", ["0", "1", "3", "4294967295"], datapath=False, target="p1", weight=0.4,
                     setup=["new p0 c.%s" % t, "sub p1 p0"], end=["rel p1", "rel p0"], inp=lambda k: ["c20run"]))
    return R


# ------------------------------------------------------------------ harness runs
class Seg:
    """Result of one abstract command on one run: what the run emitted and
    what the call returned."""
    __slots__ = ("out", "ret", "val")

    def __init__(self, out, ret, val):
        self.out, self.ret, self.val = out, ret, val


LOG = re.compile(r"^ev \S+ log ")
ERR_EV = re.compile(r"^ev \S+ (error|fatal)$")


def parse_blocks(stdout):
    blocks = []
    cur = None
    for l in stdout.splitlines():
        if l.startswith("cmd "):
            cur = []
            blocks.append(cur)
        elif cur is not None:
            cur.append(l)
    return blocks


def seg_of(blocks):
    out = []
    ret, val = None, None
    for i, b in enumerate(blocks):
        for l in b:
            if (l.startswith("sink ") or l.startswith("ev ") or l.startswith("rcmd ")) and not LOG.match(l):
                out.append(l)
            elif l.startswith("ret ") and i == 0 and ret is None:
                t = l.split(" ", 2)
                try:
                    ret = int(t[1])
                except ValueError:
                    ret = -999
                val = t[2] if len(t) > 2 else None
    return Seg(out, ret if ret is not None else -998, val)


class Run:
    """One run on the real code: segments of driver lines; after execution
    .segs holds one Seg per segment (a crashed run: the remaining segments
    carry the sanitizer summary)."""
    def __init__(self, segments):
        self.segments = segments
        self.segs = None
        self.crashed = None


def exec_runs(ctx, binp, runs, jobs=8, per_proc=400):
    """Execute runs (each starts with its own c20reset) in as few processes
    as possible; a process that dies is restarted after the run it died in."""
    err = []

    def complete(b):
        return any(l.startswith("ret ") for l in b)

    def work(chunk):
        try:
            todo = list(chunk)
            while todo:
                lines = []
                for r in todo:
                    lines.append("c20reset")
                    for s in r.segments:
                        lines += s
                env = dict(ENV)
                env["C20_TMP"] = ctx.build
                # a pipe that emits without end must not take the check down with it
                res = ctx.run(["bash", "-c", 'set -o pipefail; "$0" 0 | head -c 120000000', binp],
                              input="\n".join(lines) + "\nquit\n", timeout=300, env=env)
                if res.returncode == 124:
                    raise vlib.ToolError("pipe driver timed out (a pipe does not terminate?)")
                blocks = parse_blocks(res.stdout)
                pos = 0
                done = 0
                for r in todo:
                    need = 1 + sum(len(s) for s in r.segments)
                    mine = blocks[pos:pos + need]
                    if mine and any(l.startswith("note zombie") or l.startswith("note unreleased") for l in mine[0]):
                        raise vlib.ToolError("registry error: the run before this one left pipes behind: %s (next run: %s)" % (
                            mine[0], r.segments[0]))
                    if len(mine) == need and all(complete(b) for b in mine):
                        k = 1
                        segs = []
                        for s in r.segments:
                            segs.append(seg_of(mine[k:k + len(s)]))
                            k += len(s)
                        r.segs = segs
                        pos += need
                        done += 1
                        continue
                    # the process died inside this run
                    if not mine:
                        break
                    summ = "SANITIZER " + sanitizer_summary(res.stderr, res.returncode)
                    k = 1
                    segs = []
                    dead = False
                    for s in r.segments:
                        part = mine[k:k + len(s)]
                        k += len(s)
                        if dead:
                            segs.append(Seg([], -997, None))
                        elif len(part) == len(s) and all(complete(b) for b in part):
                            segs.append(seg_of(part))
                        else:
                            sg = seg_of(part) if part else Seg([], -997, None)
                            sg.out.append(summ)
                            segs.append(sg)
                            dead = True
                    r.segs = segs
                    r.crashed = summ
                    done += 1
                    break
                if done == 0:
                    raise vlib.ToolError("pipe driver produced no output rc=%d: %s" % (res.returncode, (res.stderr or "")[-800:]))
                todo = todo[done:]
        except Exception as ex:
            err.append(ex)
    chunks = [runs[i:i + per_proc] for i in range(0, len(runs), per_proc)]
    sem = threading.Semaphore(jobs)

    def guarded(c):
        with sem:
            work(c)
    ths = [threading.Thread(target=guarded, args=(c,)) for c in chunks]
    for t in ths:
        t.start()
    for t in ths:
        t.join()
    if err:
        raise err[0] if isinstance(err[0], vlib.ToolError) else vlib.ToolError("harness driver: %r" % err[0])


def sanitizer_summary(stderr, rc):
    m = re.search(r"SUMMARY: (\w+): (\S+)", stderr or "")
    if m:
        return "%s:%s" % (m.group(1), m.group(2))
    m = re.search(r"runtime error: ([^\n]{0,60})", stderr or "")
    if m:
        return "ubsan:" + m.group(1).replace(" ", "_")
    m = re.search(r"Assertion `([^']{0,60})' failed", stderr or "")
    if m:
        return "assert:" + m.group(1).replace(" ", "_")
    return "rc=%d" % rc


# ------------------------------------------------------------------ executions
class Exe:
    """A twin execution of one abstract script on one option."""
    def __init__(self, opt, cmds, source, pred=None):
        self.opt, self.cmds, self.source, self.pred = opt, cmds, source, pred
        self.a = self.b = self.c = None
        self.events = None
        self.truncated = None

    def segments(self, which):
        """Driver lines of run A / B / C (C needs the results of run A)."""
        o = self.opt
        segs = [list(o.setup)]
        idx = []
        for i, c in enumerate(self.cmds):
            if c[0] == "get":
                if which != "A":
                    continue
                segs.append([o.get_line()])
            elif c[0] == "set":
                if which == "C" and self.a.segs[self.ia[i]].ret != 0:
                    continue
                segs.append([o.set_line(c[1])])
            elif c[0] == "oset":
                # an accepted setter of ANOTHER option of the same pipe: not a setter of the option under test
                sib = o.siblings[c[1]]
                segs.append([sib.set_line(c[2])])
            elif c[0] == "hflush":
                # several inputs without letting the loop run (a holder keeps them), then upipe_flush: flushing
                # is not a setter of the option either
                ins = [l for j in range(4) for l in o.inp(c[1] * 8 + j) if l.startswith("c20in")]
                segs.append(ins + ["flush %s" % o.target])
            else:
                segs.append(o.inp(c[1]))
            idx.append(i)
        segs.append(list(o.end))
        return segs, idx

    def make_run(self, which):
        segs, idx = self.segments(which)
        r = Run(segs)
        m = {}
        for pos, i in enumerate(idx):
            m[i] = pos + 1            # segment 0 is the setup
        setattr(self, "i" + which.lower(), m)
        setattr(self, which.lower(), r)
        return r

    def needs_c(self):
        return any(c[0] == "set" and self.a.segs[self.ia[i]].ret != 0 for i, c in enumerate(self.cmds))

    def build_events(self, hid):
        a, b = self.a.segs, self.b.segs
        c = self.c.segs if self.c is not None else b
        ic = self.ic if self.c is not None else self.ib
        ev = [{"e": "Reset", "hid": hid, "pipe": self.opt.pipe, "opt": self.opt.opt}]

        def dead(sg):
            return sg is not None and (sg.ret == -997 or any(l.startswith("SANITIZER") for l in sg.out))
        for i, cm in enumerate(self.cmds):
            sa = a[self.ia[i]]
            sb_ = b[self.ib[i]] if i in self.ib else None
            sc_ = c[ic[i]] if i in ic else None
            if dead(sa) or dead(sb_) or dead(sc_):
                # memory safety is not this property's business: the execution is
                # validated up to the command a sanitizer stopped, and counted
                self.truncated = i
                ev.append({"e": "End", "oa": [], "ob": [], "oc": []})
                self.events = ev
                return
            if cm[0] == "get":
                ev.append({"e": "Get", "ret": sa.ret, "res": sa.val if sa.val is not None else "?", "oa": sa.out})
                continue
            sb = b[self.ib[i]]
            sc = c[ic[i]] if i in ic else None
            if cm[0] == "set":
                # an error event thrown by a setter reports the refusal; it is not
                # something the pipe "does next" (run C never sees the refused calls)
                def quiet(lines):
                    return [x for x in lines if not ERR_EV.match(x)]
                ev.append({"e": "Set", "v": cm[1], "ret": sa.ret, "retb": sb.ret, "retc": sc.ret if sc else 0,
                           "oa": quiet(sa.out), "ob": quiet(sb.out), "oc": quiet(sc.out) if sc else []})
            else:
                ev.append({"e": "In", "k": cm[1], "oa": sa.out, "ob": sb.out, "oc": sc.out if sc else []})
        if dead(a[-1]) or dead(b[-1]) or dead(c[-1]):
            self.truncated = len(self.cmds)
            ev.append({"e": "End", "oa": [], "ob": [], "oc": []})
        else:
            ev.append({"e": "End", "oa": a[0].out + a[-1].out, "ob": b[0].out + b[-1].out, "oc": c[0].out + c[-1].out})
        self.events = ev


def execute(ctx, binp, exes, jobs=8):
    """Twin runs of all executions: A and B first, then C where run A saw a
    rejected setter call (otherwise script C is script B and the harness is
    deterministic)."""
    runs = []
    for e in exes:
        runs.append(e.make_run("A"))
        runs.append(e.make_run("B"))
    exec_runs(ctx, binp, runs, jobs=jobs)
    runs = []
    for e in exes:
        e.c = None
        if e.needs_c():
            runs.append(e.make_run("C"))
    exec_runs(ctx, binp, runs, jobs=jobs)
    for i, e in enumerate(exes):
        e.build_events(i)


def validate(ctx, exes, tag, parts=4):
    """One TLC pass per part over the recorded executions; returns
    {index: (line in execution, [invariants])} of the rejected ones."""
    bad = {}
    err = []
    n = len(exes)
    if n == 0:
        return bad
    step = max(1, (n + parts - 1) // parts)

    def one(k, lo, hi):
        try:
            path = os.path.join(ctx.build, "%s_%d.ndjson" % (tag, k))
            starts = {}
            ln = 1
            ids = {}

            def enc(lines):
                # emitted lines are only ever compared with each other: TLC gets
                # one short token per distinct line (same token <=> same line)
                return [ids.setdefault(x, "L%d" % len(ids)) for x in lines]
            with open(path, "w") as f:
                for i in range(lo, hi):
                    starts[i] = ln
                    for e in exes[i].events:
                        e = dict(e)
                        for fld in ("oa", "ob", "oc"):
                            if fld in e:
                                e[fld] = enc(e[fld])
                        f.write(json.dumps(e, separators=(",", ":")) + "\n")
                    ln += len(exes[i].events)
            ok, res, line = ctx.validate_trace(TRACE_MULTI[0], TRACE_MULTI[1], path, timeout=1500, heap="6g",
                                               name="%s_%d" % (tag, k))
            if not ok:
                raise vlib.ToolError("trace validation did not consume the trace (line %s)\n%s" % (line, res.out[-1500:]))
            i0 = res.out.find('"TRACE_BAD"')
            if i0 < 0:
                raise vlib.ToolError("trace validation: no TRACE_BAD report\n" + res.out[-1500:])
            i1 = res.out.find("TRACE_ACCEPTED", i0)
            for h, l, nm in re.findall(r'<<(\d+), (\d+), "(\w+)">>', res.out[i0:i1]):
                h, l = int(h), int(l)
                cur = bad.setdefault(h, (l - starts[h] + 1, []))
                cur[1].append(nm)
            ctx.traces += hi - lo
        except Exception as ex:
            err.append(ex)
    ths = [threading.Thread(target=one, args=(k, lo, min(n, lo + step))) for k, lo in enumerate(range(0, n, step))]
    for t in ths:
        t.start()
    for t in ths:
        t.join()
    if err:
        raise err[0] if isinstance(err[0], vlib.ToolError) else vlib.ToolError("trace validation driver: %r" % err[0])
    return bad


# ------------------------------------------------------------------ calibration
def calibrate(ctx, binp, opts):
    """What a fresh pipe says (default value) and which palette values its
    setter accepts: measured, not assumed."""
    runs = []
    for o in opts:
        r = Run([list(o.setup), [o.get_line()], list(o.end)])
        runs.append((o, None, r))
        for v in o.values:
            runs.append((o, v, Run([list(o.setup), [o.set_line(v)], list(o.end)])))
    exec_runs(ctx, binp, [r for _, _, r in runs], jobs=8, per_proc=60)
    for o, v, r in runs:
        s = r.segs[1]
        if v is None:
            o.default = s.val if s.ret == 0 else None
            o.default_ret = s.ret
        elif s.ret == 0:
            o.acc.append(v)
        else:
            o.rej.append(v)
        if r.crashed:
            raise vlib.ToolError("calibration of %s crashed: %s" % (o.name, r.crashed))
        if s.ret in (-1, -99, -999, -998):
            raise vlib.ToolError("calibration of %s: harness does not know the option (%s)" % (o.name, v))


# ------------------------------------------------------------------ scripts
def instantiate(o, beh, rot):
    """A TLC behaviour (values 1..3 accepted, 4..5 rejected, 0 the default)
    as an abstract script on option o, or None if o lacks such values."""
    amap, rmap = {}, {}
    for i in (1, 2, 3):
        if len(o.acc) >= i:
            amap[i] = o.acc[(i - 1 + rot) % len(o.acc)] if len(o.acc) >= 3 else o.acc[i - 1]
    for i in (4, 5):
        if len(o.rej) >= i - 3:
            rmap[i] = o.rej[(i - 4 + rot) % len(o.rej)] if len(o.rej) >= 2 else o.rej[i - 4]
    cmds, pred = [], []
    for h in beh:
        if h["op"] == "set":
            v = amap.get(h["v"]) if h["v"] <= 3 else rmap.get(h["v"])
            if v is None:
                return None
            cmds.append(("set", v))
            pred.append(("ok" if h["ret"] == 0 else "err", None))
        elif h["op"] == "get":
            cmds.append(("get",))
            r = h["res"]
            pred.append(("ok", o.default if r == 0 else amap.get(r, rmap.get(r, "GARBAGE"))))
        else:
            cmds.append(("in", h["k"]))
            pred.append((None, None))
    if len(set(amap.values())) < len(amap) or len(set(rmap.values())) < len(rmap):
        return None
    return Exe(o, cmds, "TLC", pred=pred)


def random_exe(o, rng, quick):
    n = 6 + rng.below(10 if quick else 22)
    cmds = []
    k = 0
    for _ in range(n):
        c = rng.below(100)
        if c < 34:
            cmds.append(("set", rng.choice(o.values)))
        elif c < 62:
            cmds.append(("get",))
            if rng.chance(1, 5):
                cmds.append(("get",))
        elif c < 90:
            k += 1
            cmds.append(("in", k))
        elif c < 95 and getattr(o, "siblings", None):
            j = rng.below(len(o.siblings))
            cmds.append(("oset", j, rng.choice(o.siblings[j].acc)))
        else:
            k += 1
            cmds.append(("hflush", k))
    return Exe(o, cmds, "random")


def lockstep(e):
    """Textual comparison of what TLC predicted with what run A answered."""
    for i, (cm, p) in enumerate(zip(e.cmds, e.pred)):
        s = e.a.segs[e.ia[i]]
        if cm[0] == "set":
            got = "ok" if s.ret == 0 else "err"
            if got != p[0]:
                return "command %d %s: setter answered %d, predicted %s" % (i, cm, s.ret, p[0])
        elif cm[0] == "get":
            if p[1] is not None and (s.ret != 0 or s.val != p[1]):
                return "command %d get: getter answered ret=%d %s, predicted %s" % (i, s.ret, s.val, p[1])
    return None


class Fake:
    def __init__(self, events):
        self.events = events


def corruption_selftest(ctx, exes, bad):
    """Vacuity guard of the trace validation: one field of an ACCEPTED
    recorded execution is corrupted (the value a getter returned; a line one
    run emitted) and TLC must reject the result with the right invariant."""
    done = {}
    for i, e in enumerate(exes):
        if i in bad or e.truncated is not None:
            continue
        evs = e.events
        if "get" not in done:
            for k in range(1, len(evs)):
                if evs[k]["e"] == "Get" and evs[k]["ret"] == 0 and any(
                        x["e"] == "Set" and x["ret"] == 0 for x in evs[:k]):
                    c = [dict(x) for x in evs]
                    c[k]["res"] = c[k]["res"] + "~"
                    done["get"] = (c, k + 1, "GetReturnsLast")
                    break
        if "in" not in done:
            for k in range(1, len(evs)):
                if evs[k]["e"] == "In" and evs[k]["ob"]:
                    c = [dict(x) for x in evs]
                    c[k]["ob"] = c[k]["ob"][:-1] + [c[k]["ob"][-1] + "~"]
                    done["in"] = (c, k + 1, "GetterNeutral")
                    break
        if len(done) == 2:
            break
    if len(done) < 2:
        raise vlib.ToolError("vacuity: no accepted execution to corrupt")
    for name, (c, line, inv) in done.items():
        r = one_history(ctx, Fake(c), "corrupt_" + name)
        if not r or r[0][1] != line or inv not in r[0][2]:
            raise vlib.ToolError("vacuity: corrupted trace (%s, line %d) not rejected by %s: %s" % (name, line, inv, r))
    ctx.extra["corrupted_traces_rejected"] = sorted(done)


def one_history(ctx, e, tag):
    """Validate one execution with the INVARIANT configuration; returns
    [] or [(0, rejected line, invariants)] (TLC stops in the state AFTER the
    offending line)."""
    r = ctx.validate_histories(TRACE_ONE[0], TRACE_ONE[1], [e.events], tag=tag)
    return [(i, line - 1 if inv else line, inv) for i, line, inv in r]


# ------------------------------------------------------------------ verdict keys
def classify(e, line, invs):
    """Kind of slip of one rejected execution (names the key, nothing else)."""
    ev = e.events[line - 1]
    kinds = set()
    if "GetterNeutral" in invs:
        kinds.add("G")
    if "GetReturnsLast" in invs:
        last_set = None
        for x in e.events[:line - 1]:
            if x["e"] == "Set":
                last_set = x
        if last_set is not None and last_set["ret"] != 0:
            kinds.add("R")
        else:
            kinds.add("V")
    if "RejectNeutral" in invs:
        kinds.add("N")
    if "SameAnswers" in invs:
        kinds.add("S")
    return kinds


LABEL = {"W": ("get", "getter-writes-option"), "G": ("get", "getter-alters-pipe"),
         "V": ("get", "getter-returns-other-value"), "R": ("set", "rejected-setter-takes-effect"),
         "N": ("set", "rejected-setter-alters-pipe"), "S": ("set", "setter-answers-differently-after-getter")}


def judge(ctx, binp, exes, bad):
    """Group the rejected executions per option and kind, re-run the shortest
    one of each group in a fresh process, validate it again, report."""
    groups = {}
    for i, (line, invs) in bad.items():
        e = exes[i]
        for k in classify(e, line, invs):
            groups.setdefault((e.opt.name, k), []).append((len(e.cmds), i, line, invs))
    names = set(n for n, _ in groups)
    for n in names:
        if (n, "G") in groups and (n, "V") in groups:
            groups[(n, "W")] = groups.pop((n, "G")) + groups.pop((n, "V"))
        if (n, "R") in groups and (n, "N") in groups:
            groups[(n, "R")] += groups.pop((n, "N"))
    ctx.extra["rejected_executions"] = len(bad)
    err = []
    found = []

    def confirm(n, k, lst):
        try:
            lst.sort()
            _, i, line, invs = lst[0]
            e = exes[i]
            again = Exe(e.opt, e.cmds, e.source)
            execute(ctx, binp, [again], jobs=1)
            r = one_history(ctx, again, "re_%s_%s" % (re.sub(r"\W", "_", n), k))
            if not r:
                diff = [(x, y) for x, y in zip(e.events, again.events) if x != y and x.get("e") != "Reset"]
                raise vlib.ToolError("rejected execution did not reproduce (flaky harness?): %s %s line %d %s\nfirst differing event: %s" % (
                    n, script_text(e.cmds), line, invs, json.dumps(diff[:1])[:1500]))
            acc, what = LABEL[k]
            key = "%s;%s_%s;%s" % (e.opt.pipe, acc, e.opt.opt, what)
            ev = again.events[r[0][1] - 1] if r[0][1] <= len(again.events) else {}
            desc = "%s: %s of %s - script %s: event %d %s breaks %s (%d executions of this kind rejected)" % (
                key, what, n, script_text(e.cmds), r[0][1], json.dumps(ev)[:400], ",".join(r[0][2] or invs), len(lst))
            found.append((key, desc, {"option": n, "cmds": [list(c) for c in e.cmds], "events": again.events,
                                      "rejected_line": r[0][1], "invariants": r[0][2] or invs}))
        except Exception as ex:
            err.append(ex)
    sem = threading.Semaphore(8)

    def guarded(*a):
        with sem:
            confirm(*a)
    ths = [threading.Thread(target=guarded, args=(n, k, lst)) for (n, k), lst in sorted(groups.items())]
    for t in ths:
        t.start()
    for t in ths:
        t.join()
    if err:
        raise err[0] if isinstance(err[0], vlib.ToolError) else vlib.ToolError("judge: %r" % err[0])
    for key, desc, rp in sorted(found, key=lambda x: x[0]):
        ctx.violation(key, desc, rp)


# two views of one setting (the position of a file source is the offset of its range): not independent options
# (and the file source announces a smaller block size for the last chunk of a range: upipe_fsrc_worker calls its own
# set_output_size(remaining length) - the output size follows the range by design)
COUPLED = {("fsrc", frozenset(("position", "range"))), ("fsrc", frozenset(("output_size", "range")))}


class ReadyExe:
    """A setter called from the probe while it handles 'ready' (the event says that the pipe accepts control
    commands), a getter after the allocation has returned: for the specification a Set followed by a Get."""
    def __init__(self, opt, v):
        self.opt, self.v = opt, v
        self.cmds = [("set", v), ("get",)]
        self.source = "setter inside the ready probe"
        self.events = None
        self.run = None

    def make_run(self):
        o = self.opt
        segs = []
        self.inew = None
        for l in o.setup:
            t = l.split()
            if t[0] == "new" and t[1] == o.target and self.inew is None:
                segs.append(["onev %s ready %s" % (o.target, o.set_line(self.v))])
                self.inew = len(segs)
            segs.append([l])
        segs.append([o.get_line()])
        self.iget = len(segs) - 1
        segs.append(list(o.end))
        self.run = Run(segs)
        return self.run

    def build_events(self, hid):
        sg = self.run.segs
        new, get = sg[self.inew], sg[self.iget]
        if self.run.crashed or not any(x.startswith("rcmd ") for x in new.out):
            self.events = None          # the pipe threw no 'ready' the probe could react to, or the run died
            return
        self.events = [{"e": "Reset", "hid": hid, "pipe": self.opt.pipe, "opt": self.opt.opt},
                       {"e": "Set", "v": self.v, "ret": new.ret, "retb": new.ret, "retc": new.ret if new.ret == 0 else 0,
                        "oa": [], "ob": [], "oc": []},
                       {"e": "Get", "ret": get.ret, "res": get.val if get.val is not None else "?", "oa": []},
                       {"e": "End", "oa": [], "ob": [], "oc": []}]


def ready_part(ctx, binp, opts):
    exes = []
    for o in opts:
        if not any(l.split()[:2] == ["new", o.target] for l in o.setup):
            continue
        for v in o.acc[:2]:
            exes.append(ReadyExe(o, v))
    exec_runs(ctx, binp, [e.make_run() for e in exes], jobs=8, per_proc=60)
    for i, e in enumerate(exes):
        e.build_events(i)
    done = [e for e in exes if e.events is not None]
    for i, e in enumerate(done):
        e.events[0]["hid"] = i
    ctx.extra["setters_called_inside_the_ready_probe"] = len(done)
    if len(done) < len(exes) // 2 or not done:
        raise vlib.ToolError("vacuity: the probe reacted to 'ready' in %d of %d allocations only" % (len(done), len(exes)))
    bad = validate(ctx, done, "ready", parts=1)
    for i, (line, invs) in sorted(bad.items()):
        e = done[i]
        # a second, fresh run must repeat it
        again = ReadyExe(e.opt, e.v)
        exec_runs(ctx, binp, [again.make_run()], jobs=1, per_proc=1)
        again.build_events(0)
        if again.events is None or not validate(ctx, [again], "ready_re", parts=1):
            raise vlib.ToolError("rejected execution did not reproduce: %s set %s inside the ready probe" % (e.opt.name, e.v))
        ev = again.events[line - 1] if 0 < line <= len(again.events) else {}
        key = "%s;%s;set-inside-ready-probe-lost" % (e.opt.pipe, e.opt.opt)
        ctx.violation(key, "%s: %s accepted from the probe handling 'ready' (the pipe says it responds to control commands) but "
                      "the getter called after the allocation returned answers %s: event %d %s breaks %s" % (
                          key, e.opt.set_line(e.v), json.dumps(ev.get("res")), line, json.dumps(ev)[:300], ",".join(invs)),
                      {"option": e.opt.name, "value": e.v, "script": [l for s_ in again.run.segments for l in s_], "events": again.events})


def script_text(cmds):
    return "; ".join(c[0] + ("" if len(c) == 1 else " " + str(c[1])) for c in cmds)


# ------------------------------------------------------------------ models
def run_models(ctx, jobs):
    res, err = {}, []

    def one(j):
        try:
            res[j["cfg"]] = ctx.tlc("Options", "MCOptions_%s.cfg" % j["cfg"], workers=j.get("workers", 1),
                                    coverage=bool(j.get("coverage")), heap="3g", timeout=j.get("timeout", 600),
                                    count=False, name=j["cfg"], simulate=j.get("simulate"), depth=j.get("depth"))
        except Exception as ex:
            err.append(ex)
    sem = threading.Semaphore(6)

    def guarded(j):
        with sem:
            one(j)
    ths = [threading.Thread(target=guarded, args=(j,)) for j in jobs]
    for t in ths:
        t.start()
    for t in ths:
        t.join()
    if err:
        raise err[0] if isinstance(err[0], vlib.ToolError) else vlib.ToolError("TLC driver: %r" % err[0])
    return res


def run(ctx):
    import time
    quick = ctx.quick
    T0 = time.time()
    tm = ctx.extra.setdefault("timing_s", {})

    def mark(name):
        tm[name] = round(time.time() - T0, 1)
    side = {"err": [], "bin": None}

    def do_build():
        try:
            side["bin"] = build(ctx)
        except Exception as ex:
            side["err"].append(ex)
    bt = threading.Thread(target=do_build)
    bt.start()

    # ---- 1. model checking
    COV = ["MSet", "MGet", "MIn"]
    pos = [dict(cfg="l6", coverage=COV), dict(cfg="l5_noview", coverage=COV), dict(cfg="l8", coverage=COV)]
    neg = [dict(cfg="neg_" + v) for v in NEGATIVE]
    beh = [dict(cfg="beh4" if quick else "beh5"),
           dict(cfg="sim", simulate=(150 if quick else 1500), depth=12)]
    try:
        res = run_models(ctx, pos + neg + beh)
    finally:
        bt.join()
    if side["err"]:
        ex = side["err"][0]
        raise ex if isinstance(ex, vlib.ToolError) else vlib.ToolError("build: %r" % ex)
    for j in pos:
        r = res[j["cfg"]]
        ctx.model_must_hold(r, "Options/" + j["cfg"])
        ctx.require_coverage(r, j["coverage"])
        ctx.states += r.distinct
        ctx.transitions += r.generated
    ctx.exhaustive = True
    for v, inv in NEGATIVE.items():
        r = res["neg_" + v]
        if not set(inv.split("|")) & set(r.violated):
            raise vlib.ToolError("vacuity: negative configuration %s not rejected by %s (got %s)" % (v, inv, r.violated))
        ctx.extra.setdefault("negative_configurations", {})[v] = r.violated
    for j in beh:
        ctx.model_must_hold(res[j["cfg"]], "Options/" + j["cfg"])
    mark('models+build')
    behs = []
    seen = set()
    for j in beh:
        for b in res[j["cfg"]].beh():
            k = json.dumps(b, sort_keys=True)
            if k not in seen:
                seen.add(k)
                behs.append(b)
    if len(behs) < 100:
        raise vlib.ToolError("TLC emitted only %d behaviours" % len(behs))

    # ---- calibration of the registry on the real code
    binp = side["bin"]
    opts = registry(ctx.build)
    only = os.environ.get("C20_ONLY")
    if only:
        opts = [o for o in opts if o.name in only.split(",")]
    calibrate(ctx, binp, opts)
    # the other options of the same pipe in the same set-up (their accepted values were just measured)
    for o in opts:
        o.siblings = [x for x in opts if x is not o and x.pipe == o.pipe and x.setup == o.setup and x.target == o.target
                      and x.end == o.end and x.acc and (o.pipe, frozenset((o.opt, x.opt))) not in COUPLED]
    ctx.extra["options_with_sibling_options"] = sum(1 for o in opts if o.siblings)
    mark('calibrate')
    ctx.extra["options_covered"] = {o.name: {"default": o.default, "accepted": o.acc, "rejected": o.rej,
                                             "inputs_exercise_option": o.datapath} for o in opts}
    ctx.extra["options_without_two_accepted_values"] = [o.name for o in opts if len(o.acc) < 2]

    # ---- 2. spec -> code: TLC's behaviours on every option
    rng = vlib.Rng(ctx.seed)
    exes = []
    per_opt = 80 if quick else 2500
    nrand = 20 if quick else 1000
    for oi, o in enumerate(opts):
        mine = []
        for bi, b in enumerate(behs):
            e = instantiate(o, b, bi + oi)
            if e is not None:
                mine.append(e)
        n = max(20, int(per_opt * o.weight))
        if len(mine) > n:
            # a seeded sample, the scripts that call the getter first
            mine.sort(key=lambda e: (0 if any(c[0] == "get" for c in e.cmds) else 1, rng.next()))
            mine = mine[:n]
        exes += mine
    nbeh = len(exes)
    # ---- 3. code -> spec: seeded random scripts
    for o in opts:
        for _ in range(max(8, int(nrand * o.weight))):
            exes.append(random_exe(o, rng, quick))
        # directed: every accepted value of the option against every accepted value of every other option of the pipe
        for j, sib in enumerate(getattr(o, "siblings", [])):
            for v in o.acc[:4]:
                for w in sib.acc[:4]:
                    exes.append(Exe(o, [("set", v), ("oset", j, w), ("get",), ("in", 1), ("get",)], "directed sibling option"))
    mark('scripts')
    execute(ctx, binp, exes, jobs=8)
    mark('execute')
    diffs = []
    for e in exes:
        if e.pred is not None:
            d = lockstep(e)
            if d:
                diffs.append({"option": e.opt.name, "script": script_text(e.cmds), "difference": d})
    bad = validate(ctx, exes, "tw", parts=8)
    mark('validate')
    crashed = [e for e in exes if e.a.crashed or e.b.crashed or (e.c is not None and e.c.crashed)]
    ctx.evaluations += len(exes)
    ctx.extra["model_behaviours"] = len(behs)
    ctx.extra["model_behaviours_replayed"] = nbeh
    ctx.extra["random_executions"] = len(exes) - nbeh
    ctx.extra["behaviours_differing_from_prediction"] = len(diffs)
    ctx.extra["differences_by_option"] = sorted(set(d["option"] for d in diffs))
    if diffs:
        ctx.extra["first_difference"] = diffs[0]
    ctx.extra["events_validated"] = sum(len(e.events) for e in exes)
    ctx.extra["executions_ended_by_sanitizer"] = len(crashed)
    if crashed:
        ctx.extra["sanitizer_summaries"] = sorted(set("%s %s" % (e.opt.name, e.a.crashed or e.b.crashed or e.c.crashed)
                                                     for e in crashed))[:12]
    for e in exes:
        if e.source == "TLC" and e.opt.name == "chunk_stream.mtu" and any(c[0] == "in" for c in e.cmds):
            ctx.sample({"source": "TLC behaviour", "option": e.opt.name, "script": script_text(e.cmds),
                        "predicted": e.pred, "events": e.events}, limit=1)
            break
    for e in exes:
        if e.source == "random" and e.opt.name == "ts_sync.sync":
            ctx.sample({"source": "random seed=%d" % ctx.seed, "option": e.opt.name, "script": script_text(e.cmds),
                        "events": e.events[:8]}, limit=2)
            break
    st = {"err": None}

    def selftest():
        try:
            corruption_selftest(ctx, exes, bad)
        except Exception as ex:
            st["err"] = ex
    stt = threading.Thread(target=selftest)
    stt.start()
    try:
        judge(ctx, binp, exes, bad)
    finally:
        stt.join()
    if st["err"]:
        ex = st["err"]
        raise ex if isinstance(ex, vlib.ToolError) else vlib.ToolError("corruption self-test: %r" % ex)
    mark('judge')
    ready_part(ctx, binp, opts)
    mark('ready')
    # a behaviour the real code answers differently than predicted without
    # breaking the specification (e.g. acceptance depending on the history)
    unexplained = [d for d in diffs if not any(v[0].startswith(d["option"].split(".")[0] + ";") for v in ctx.violations)
                   and not any(k[0].startswith(d["option"].split(".")[0] + ";") for k in ctx.known_hits)]
    if unexplained:
        ctx.extra["model_drift"] = True
        ctx.notes.append("real code answers differently than the model predicts without violating the abstract "
                         "specification: %s" % unexplained[0])
    ctx.assumptions += [
        "values given to a setter are inside the documented domain of the option; which of them the setter accepts is measured on a fresh pipe, not assumed",
        "'what the pipe does next' is what it emits: every buffer (payload, dates, attributes), flow definition and non-log event reaching the recording sink / probe; logs, return codes of inputs and timing inside the mock event loop are not compared",
        "'in force' for a rejected value: a script without the rejected setter calls must emit the same (run C)",
        "a getter may let already buffered data out earlier (logs compared when both runs got the same non-getter command)",
    ]
    ctx.trusted += ["TLC", "harness/pipe_driver.c + harness/pd_ext_c20.c (command interpreter, recording sink, option table)",
                    "harness/vloop.c (mock event loop) and the virtual clock", "harness/shim/bitstream (clean-room TS constants)",
                    "gcc AddressSanitizer / UndefinedBehaviorSanitizer"]


def replay(ctx, rp):
    """bin/check C20 --replay file: re-run the stored twin execution."""
    binp = build(ctx)
    opts = registry(ctx.build)
    o = [x for x in opts if x.name == rp["replay"]["option"]][0]
    e = Exe(o, [tuple(c) for c in rp["replay"]["cmds"]], "replay")
    execute(ctx, binp, [e], jobs=1)
    r = one_history(ctx, e, "replay")
    if r:
        print("VIOLATION property=C20 replay reproduced: event %d %s breaks %s" % (
            r[0][1], json.dumps(e.events[r[0][1] - 1])[:400], ",".join(r[0][2])))
        return 1
    print("OK property=C20 replay accepted")
    return 0
