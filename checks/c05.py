"""C05 - in-thread pipes neither lose, duplicate nor reorder buffers.

1. TLC checks spec/PipeFlow.tla (network interpreter: one-to-one kinds with
   their documented change, the duplicating split, the holders upipe_buffer,
   upipe_disblo, upipe_tblk, upipe_time_limit in detail, output helper,
   reference counting) exhaustively for small networks: ExactlyOnce, InOrder,
   ContentOK, DupAll, NoLeak, EpilogueClean, FlushFrees; coverage guard;
   negative variants must be rejected.
2. spec -> code: behaviours emitted by TLC (commands + predicted deliveries per
   sink, live buffer instances, dead nodes, pump dispatch results, including a
   drain-and-release epilogue) are replayed on the REAL pipes through
   harness/pipe_driver.c + pd_ext_c05.c (ASan/UBSan/LSan) and compared textually.
3. code -> spec: seeded random scripts over random networks are executed and the
   recorded (command, observation) pairs validated by spec/PipeFlow_Trace.tla
   with the ABSTRACT layer of the same interpreter (holders may release any
   prefix at any time, order/content/routing/conservation are constrained).
A violation is an execution of the real code rejected by PipeFlow_Trace twice.
"""
import json, os, re, threading
import vlib
from checks import pipecommon

LEVEL = "model_checking"
EXTRA_MODULES = ["buffer", "discard_blocking", "time_limit", "trickplay"]
FMT_KEYS = ["s", "id", "size", "hex", "fd", "sys", "prog", "orig", "dpd", "cdd", "rcd", "tag", "disc", "held"]
SINKS = ["s0", "s1", "s2"]
TRACE = ("PipeFlow_Trace", "PipeFlow_Trace.cfg")


# ------------------------------------------------------------------ commands -> script
def date_tok(name, d):
    return [] if d[0] == "-" else ["%s=%s:%d" % (name, d[0], d[1])]


def cmd_line(c):
    """One abstract command (as in PipeFlow.tla) as a line for the driver."""
    op = c["op"]
    if op == "new":
        return "new %s %s" % (c["p"], c["k"])
    if op == "sink":
        return "bsink %s" % c["s"]
    if op == "sub":
        return "sub %s %s" % (c["p"], c["par"])
    if op == "setfd":
        return "setfd %s b%s" % (c["p"], c["f"])
    if op == "out":
        return "out %s %s" % (c["p"], c["t"])
    if op == "in":
        b = c["b"]
        t = ["inb", c["p"], str(b["id"]), str(len(b["pl"])), c.get("seg", "1") or "1"]
        if not b["hid"]:
            t.append("noid")
        t += date_tok("sys", b["sys"]) + date_tok("prog", b["prog"]) + date_tok("orig", b["orig"])
        if b["dpd"] >= 0:
            t.append("dpd=%d" % b["dpd"])
        if b["cdd"] >= 0:
            t.append("cdd=%d" % b["cdd"])
        if b["tag"] != "-":
            t.append("tag=%s" % b["tag"])
        if b["disc"]:
            t.append("disc")
        return " ".join(t)
    if op == "opt":
        if c["name"] == "match":
            return "opt %s set match %d,%d" % (c["p"], c["v"], c["w"])
        return "opt %s set %s %s" % (c["p"], c["name"], c["v"])
    if op in ("block", "unblock", "provall"):
        return "%s %s" % (op, c["s"])
    if op == "policy":
        return "policy %s %s" % (c["s"], c["v"])
    if op == "renew":
        return "renew %s %s" % (c["p"], c["s"])
    if op in ("disp", "flush"):
        return "%s %s" % (op, c["p"])
    if op == "adv":
        return "adv %d" % c["t"]
    if op == "rel":
        return "rel %s" % c["n"]
    if op == "drained":
        return "dlive"
    raise vlib.ToolError("unknown command %r" % (c,))


def parse_blocks(blocks):
    """Driver output -> one observation per command: deliveries per sink (the
    fields the sinks print, as strings), live data buffers, dead nodes, ret."""
    obs = []
    live = 0
    for toks, lines in blocks:
        o = {"dl": {s: [] for s in SINKS}, "dead": [], "ret": "-", "unk": 0}
        for l in lines:
            if l.startswith("duref alloc"):
                live += 1
            elif l.startswith("duref free"):
                live -= 1
                if "UNKNOWN" in l:
                    o["unk"] += 1
            elif l.startswith("sink ") and " input " in l:
                t = l.split()
                d = {"s": t[1], "held": "1" if t[-1] == "held" else "0"}
                for kv in t[4:]:
                    k, sep, v = kv.partition("=")
                    if sep:
                        d[k] = v
                d.pop("rate", None)
                o["dl"].setdefault(t[1], []).append(d)
            elif l.startswith("ev ") and l.endswith(" dead"):
                n = l.split()[1]
                if n not in o["dead"]:
                    o["dead"].append(n)
            elif l.startswith("probe renew "):
                o["renew"] = True
            elif l.startswith("ret "):
                o["ret"] = l.split()[1]
        o["live"] = live
        o["dead"].sort()
        obs.append((toks, o))
    return obs


class Exe:
    def __init__(self, cmds, source, pred=None):
        self.cmds = cmds            # abstract commands
        self.source = source
        self.pred = pred            # predicted results (spec -> code)
        self.obs = None
        self.crash = None

    def lines(self):
        return [cmd_line(c) for c in self.cmds]


def execute(ctx, binp, exes, jobs=4):
    err = []

    def one(part):
        try:
            for e in part:
                blocks, r = pipecommon.run_script(ctx, binp, e.lines(), timeout=60)
                obs = parse_blocks(blocks)
                # the final "quit" block is dropped
                obs = [o for t, o in obs if t and t[0] != "quit"]
                e.crash = None
                if r.returncode != 0:
                    e.crash = "rc=%d %s" % (r.returncode, (r.stderr or "")[-1500:])
                if len(obs) != len(e.cmds) and e.crash is None:
                    raise vlib.ToolError("pipe_driver: %d results for %d commands (%s)" % (len(obs), len(e.cmds), e.source))
                e.obs = obs
        except Exception as ex:
            err.append(ex)
    n = len(exes)
    step = max(1, (n + jobs - 1) // jobs)
    ths = [threading.Thread(target=one, args=(exes[b:b + step],)) for b in range(0, n, step)]
    for t in ths:
        t.start()
    for t in ths:
        t.join()
    if err:
        raise err[0] if isinstance(err[0], vlib.ToolError) else vlib.ToolError("harness driver: %r" % err[0])


def lockstep(e):
    """Textual comparison of TLC's prediction with what the code printed.
    Returns None or (index, description)."""
    if e.crash:
        return (len(e.obs or []), "crash: " + e.crash[:300])
    for i, (p, o) in enumerate(zip(e.pred, e.obs)):
        for s in SINKS:
            want = [{k: d[k] for k in FMT_KEYS} for d in p["dl"].get(s, [])]
            got = [{k: d.get(k) for k in FMT_KEYS} for d in o["dl"].get(s, [])]
            if want != got:
                return (i, "sink %s received %s, predicted %s" % (s, got, want))
        if p["live"] != o["live"]:
            return (i, "live buffers %d, predicted %d" % (o["live"], p["live"]))
        if sorted(p["dead"]) != o["dead"]:
            return (i, "dead %s, predicted %s" % (o["dead"], sorted(p["dead"])))
        if p["ret"] != "-" and p["ret"] != o["ret"]:
            return (i, "ret %s, predicted %s" % (o["ret"], p["ret"]))
        if o["unk"]:
            return (i, "free of an unknown buffer")
    return None


def beh_exe(b, source):
    return Exe([x["c"] for x in b], source, pred=[x["r"] for x in b])


# ------------------------------------------------------------------ trace events
def events(e, hid=None):
    """Execution -> ndjson events for PipeFlow_Trace."""
    ev = [{"e": "Reset", "src": e.source}]
    for c, o in zip(e.cmds, e.obs):
        ev.append({"e": "Cmd", "c": c, "dl": {s: [{k: d.get(k, "?") for k in FMT_KEYS} for d in o["dl"].get(s, [])] for s in SINKS},
                   "live": o["live"], "dead": o["dead"], "ret": o["ret"], "unk": o["unk"]})
    if e.crash:
        ev.append({"e": "Crash"})
    return ev


# ------------------------------------------------------------------ random networks and scripts
SYNC = ["idem", "setflowdef", "setattr", "puref", "skip", "htons", "delay", "match_attr", "setrap", "noclock", "nodemux"]
HOLD = ["tblk", "buffer", "disblo", "time_limit"]


def C(op, **kw):
    d = {"op": op}
    d.update(kw)
    return d


class Gen:
    """Seeded generator of a network and a command script.  It only keeps the
    book-keeping needed to issue meaningful commands (which names exist, which
    handles were released); it predicts nothing."""
    def __init__(self, rng):
        self.r = rng
        self.cmds = []
        self.pipes = {}       # name -> kind (handle still held)
        self.sinks = []       # names with handle
        self.allsinks = []
        self.allpipes = {}
        self.entry = None
        self.nin = 0
        self.kinds = set()
        self.dup = None
        self.nsub = 0

    def add(self, c):
        self.cmds.append(c)

    def pick_kind(self, allow_hold=True):
        r = self.r
        while True:
            k = r.choice(HOLD) if allow_hold and r.chance(2, 5) else r.choice(SYNC + ["null"] if r.chance(1, 12) else SYNC)
            if k == "time_limit" and "time_limit" in self.kinds:
                continue
            # outside what the detailed layer predicts reliably (five false alarms of the thorough tier were of
            # these two kinds): two pump-driven holding pipes in one network (how many turns of the loop drain two
            # chained upipe_buffer after max_size was lowered), and upipe_tblk together with upipe_time_limit (in
            # which order a sink answers their requests after re-plumbing moved the registrations)
            if k in ("buffer", "disblo") and self.kinds & {"buffer", "disblo"}:
                continue
            if (k == "tblk" and "time_limit" in self.kinds) or (k == "time_limit" and "tblk" in self.kinds):
                continue
            if k == "nodemux" and self.kinds & {"delay", "noclock", "setrap", "time_limit"}:
                continue
            if k in ("delay", "noclock", "setrap", "time_limit") and "nodemux" in self.kinds:
                continue
            return k

    def new_pipe(self, name, k):
        r = self.r
        self.add(C("new", p=name, k=k))
        self.pipes[name] = k
        self.allpipes[name] = k
        self.kinds.add(k)
        o = []
        if k == "skip":
            o.append(C("opt", p=name, name="offset", v=r.below(3)))
        elif k == "delay":
            o.append(C("opt", p=name, name="delay", v=r.choice([0, 3, 10])))
        elif k == "setattr" and r.chance(3, 4):
            o.append(C("opt", p=name, name="dict", v=r.choice(["t1", "t2", "none"])))
        elif k == "puref" and r.chance(1, 2):
            o.append(C("opt", p=name, name="drop", v=1 + r.below(4)))
        elif k == "match_attr" and r.chance(3, 4):
            lo = 1 + r.below(3)
            o.append(C("opt", p=name, name="match", v=lo, w=lo + r.below(4)))
        elif k == "setrap" and r.chance(3, 4):
            o.append(C("opt", p=name, name="rap", v=r.choice([0, 10, 25])))
        elif k == "buffer":
            o.append(C("opt", p=name, name="max_size", v=r.choice([3, 6, 10, 20])))
        elif k == "disblo" and r.chance(2, 3):
            o.append(C("opt", p=name, name="max_length", v=1 + r.below(3)))
        elif k == "time_limit":
            o.append(C("opt", p=name, name="limit", v=100))
        return o

    def new_sink(self):
        n = "s%d" % len(self.allsinks)
        self.add(C("sink", s=n))
        self.sinks.append(n)
        self.allsinks.append(n)
        return n

    def network(self):
        r = self.r
        shape = r.below(10)
        names = ["p0", "p1", "p2", "p3", "p4"]
        if shape < 5:
            # chain of 1..3 pipes into s0
            n = 1 + r.below(3)
            opts = []
            for i in range(n):
                opts.append(self.new_pipe(names[i], self.pick_kind()))
            s = self.new_sink()
            order = list(range(n))
            late_opts = []
            for i in order:
                if r.chance(2, 3):
                    for o in opts[i]:
                        self.add(o)
                else:
                    late_opts += opts[i]
            # links, downstream first (so that requests find the sink) most of the time
            links = [(names[i], names[i + 1]) for i in range(n - 1)] + [(names[n - 1], s)]
            if r.chance(3, 4):
                links.reverse()
            for a, b in links:
                if self.pipes.get(a) != "null":
                    self.add(C("out", p=a, t=b))
            for o in late_opts:
                self.add(o)
            self.entry = "p0"
            if r.chance(9, 10):
                self.add(C("setfd", p="p0", f="A"))
        else:
            # a split, optionally behind a one-to-one pipe, with 0..2 outputs made now
            first = 0
            if shape >= 8:
                for o in self.new_pipe("p0", self.pick_kind(False)):
                    self.add(o)
                first = 1
            dn = names[first]
            self.add(C("new", p=dn, k="dup"))
            self.pipes[dn] = "dup"
            self.allpipes[dn] = "dup"
            self.dup = dn
            if first:
                self.add(C("out", p="p0", t=dn))
            self.entry = "p0"
            before = r.chance(1, 2)
            if before:
                self.add(C("setfd", p="p0", f="A"))
            for _ in range(r.below(3)):
                self.make_sub()
            if r.chance(1, 4):
                self.add(C("out", p=dn, t=self.new_sink()))
            if not before and r.chance(9, 10):
                self.add(C("setfd", p="p0", f="A"))

    def make_sub(self):
        r = self.r
        free = [n for n in ["p1", "p2", "p3", "p4"] if n not in self.allpipes and n > self.dup]
        if not free or len(self.allsinks) >= 3:
            return
        sub = free[0]
        self.add(C("sub", p=sub, par=self.dup))
        self.pipes[sub] = "dupo"
        self.allpipes[sub] = "dupo"
        s = self.new_sink()
        rest = [n for n in free[1:]]
        if rest and r.chance(1, 3) and len(self.allpipes) < 5:
            mid = rest[-1]
            for o in self.new_pipe(mid, self.pick_kind()):
                self.add(o)
            self.add(C("out", p=mid, t=s))
            self.add(C("out", p=sub, t=mid))
            if r.chance(1, 2):
                self.add(C("rel", n=mid))
                del self.pipes[mid]
        elif r.chance(9, 10):
            self.add(C("out", p=sub, t=s))

    def buffer(self):
        r = self.r
        self.nin += 1
        has_skip = "skip" in self.kinds
        size = (4 + r.below(5)) if has_skip else r.choice([0, 1, 2, 3, 3, 4, 5, 6, 8])
        parts = []
        left = size
        while left > 0 and len(parts) < 3:
            p = left if len(parts) == 2 else 1 + r.below(left)
            parts.append(p)
            left -= p
        if left:
            parts[-1] += left
        if r.chance(1, 10):
            parts.insert(r.below(len(parts) + 1), 0)
        seg = "+".join(str(p) for p in parts) or "0"
        nod = ["-", 0]
        sys_, prog, orig, dpd, cdd = nod, nod, nod, -1, -1
        if "nodemux" in self.kinds:
            if r.chance(1, 2):
                sys_ = [r.choice(["pts", "dts", "cr"]), 20 + r.below(50)]
        elif "time_limit" in self.kinds:
            if r.chance(3, 4):
                sys_ = ["pts", r.choice([1050, 1500, 1900, 2500, 900])]
            if r.chance(1, 3):
                prog = ["pts", 30 + r.below(40)]
        else:
            if r.chance(1, 2):
                prog = [r.choice(["pts", "dts", "cr"]), 30 + r.below(60)]
            if r.chance(1, 2):
                if "noclock" in self.kinds:
                    if prog[0] != "-":
                        sys_ = [prog[0], 30 + r.below(60)]
                else:
                    sys_ = [r.choice(["pts", "dts", "cr"]), 30 + r.below(60)]
            if r.chance(1, 4):
                orig = [r.choice(["pts", "dts", "cr"]), 10 + r.below(30)]
            if r.chance(1, 4):
                dpd = r.below(6)
            if r.chance(1, 4):
                cdd = r.below(6)
        b = {"id": self.nin, "pl": [(self.nin * 16 + i) % 256 for i in range(size)], "hid": (size == 0) or not r.chance(1, 8),
             "sys": sys_, "prog": prog, "orig": orig, "dpd": dpd, "cdd": cdd, "rcd": -1,
             "tag": r.choice(["-", "-", "x"]), "disc": 1 if r.chance(1, 6) else 0}
        return C("in", p=self.entry, b=b, seg=seg)

    def step(self):
        r = self.r
        x = r.below(100)
        pumps = [n for n, k in self.allpipes.items() if k in ("buffer", "disblo")]
        if x < 45:
            if self.entry in self.pipes and self.nin < 12:
                self.add(self.buffer())
        elif x < 55 and pumps:
            self.add(C("disp", p=r.choice(pumps)))
        elif x < 63 and self.allsinks:
            self.add(C(r.choice(["block", "unblock"]), s=r.choice(self.allsinks)))
        elif x < 68 and self.allsinks:
            self.add(C("provall", s=r.choice(self.allsinks)))
        elif x < 73:
            self.add(C("adv", t=r.choice([100, 400, 1000])))
        elif x < 77 and self.entry in self.pipes:
            self.add(C("setfd", p=self.entry, f=r.choice(["A", "B"])))
        elif x < 80 and self.allsinks:
            self.add(C("policy", s=r.choice(self.allsinks), v=r.choice(["reject", "accept"])))
        elif x < 84 and self.dup in self.pipes:
            self.make_sub()
        elif x < 88:
            subs = [n for n, k in self.pipes.items() if k == "dupo"]
            if subs:
                n = r.choice(subs)
                self.add(C("rel", n=n))
                del self.pipes[n]
        elif x < 90:
            cand = [n for n in self.pipes if self.pipes[n] != "dupo"]
            if cand and r.chance(1, 2):
                n = r.choice(cand)
                self.add(C("rel", n=n))
                del self.pipes[n]
            elif self.sinks:
                n = r.choice(self.sinks)
                self.add(C("rel", n=n))
                self.sinks.remove(n)
        elif x < 93:
            tl = [n for n, k in self.pipes.items() if k == "time_limit"]
            if tl:
                self.add(C("flush", p=r.choice(tl)))
        elif x < 96:
            # relink an output (to null or to a sink whose handle is still held)
            # (a upipe_tblk whose request cannot reach a sink any more would hold for ever: no relinking then)
            cand = [n for n, k in self.pipes.items() if k not in ("null", "tblk", "time_limit")]
            if cand and "tblk" not in self.kinds:
                n = r.choice(cand)
                t = "null" if (r.chance(1, 2) or not self.sinks) else r.choice(self.sinks)
                self.add(C("out", p=n, t=t))
        else:
            cand = [(n, k) for n, k in self.pipes.items() if k in ("skip", "delay", "setattr", "buffer", "disblo", "match_attr")]
            if cand:
                n, k = r.choice(cand)
                if k == "skip":
                    self.add(C("opt", p=n, name="offset", v=r.below(3)))
                elif k == "delay":
                    self.add(C("opt", p=n, name="delay", v=r.choice([0, 4])))
                elif k == "setattr":
                    self.add(C("opt", p=n, name="dict", v=r.choice(["t1", "none"])))
                elif k == "buffer":
                    self.add(C("opt", p=n, name="max_size", v=r.choice([2, 8, 30])))
                elif k == "disblo":
                    self.add(C("opt", p=n, name="max_length", v=1 + r.below(3)))
                else:
                    self.add(C("opt", p=n, name="match", v=1, w=1 + r.below(8)))

    def epilogue(self):
        for s in self.allsinks:
            self.add(C("unblock", s=s))
        nfd = sum(1 for c in self.cmds if c["op"] == "setfd")
        # one round per pipe that hands buffers on from a pump, on top of the three: a buffer that waited in the
        # input of a full upipe_buffer enters it only once that one has drained, and leaves the next one a round later
        nbuf = sum(1 for k in self.allpipes.values() if k in ("buffer", "disblo"))
        for _ in range(3 + nbuf):
            if any(k == "tblk" or k == "time_limit" for k in self.allpipes.values()):
                for s in self.allsinks:
                    for _ in range(2 + nfd):
                        self.add(C("provall", s=s))
            self.add(C("adv", t=100000))
            for n, k in self.allpipes.items():
                if k in ("buffer", "disblo"):
                    for _ in range(self.nin + 1):
                        self.add(C("disp", p=n))
        self.add(C("drained"))
        for n in sorted(self.pipes):
            self.add(C("rel", n=n))
        for n in list(self.sinks):
            self.add(C("rel", n=n))


def random_exe(rng, steps):
    g = Gen(rng)
    g.network()
    for _ in range(steps):
        g.step()
    g.epilogue()
    return Exe(g.cmds, "random")


def fixed_opts(k, p="p0"):
    return {"skip": [C("opt", p=p, name="offset", v=0)], "delay": [C("opt", p=p, name="delay", v=3)],
            "setattr": [C("opt", p=p, name="dict", v="t1")], "buffer": [C("opt", p=p, name="max_size", v=6)],
            "disblo": [C("opt", p=p, name="max_length", v=2)], "time_limit": [C("opt", p=p, name="limit", v=100)],
            "setrap": [C("opt", p=p, name="rap", v=10)], "match_attr": [C("opt", p=p, name="match", v=1, w=9)]}.get(k, [])


def single_pipe(k, opts, ins, source):
    """new p0 <k> -> s0, the given inputs, drain, release."""
    cmds = [C("new", p="p0", k=k)] + opts + [C("sink", s="s0")]
    if k != "null":
        cmds.append(C("out", p="p0", t="s0"))
    cmds.append(C("setfd", p="p0", f="A"))
    cmds += ins
    cmds.append(C("unblock", s="s0"))
    for _ in range(2):
        cmds += [C("provall", s="s0")] * 3 + [C("adv", t=100000)] + [C("disp", p="p0")] * (len(ins) + 1)
    cmds += [C("drained"), C("rel", n="p0"), C("rel", n="s0")]
    return Exe(cmds, source)


def mkbuf(i, size, seg, hid=True, sys_=("-", 0), prog=("-", 0)):
    return C("in", p="p0", seg=seg,
             b={"id": i, "pl": [(i * 16 + j) % 256 for j in range(size)], "hid": hid, "sys": list(sys_), "prog": list(prog),
                "orig": ["-", 0], "dpd": -1, "cdd": -1, "rcd": -1, "tag": "-", "disc": 0})


def directed():
    """Every kind alone with edge inputs: empty block, one octet, odd size with an empty
    segment in the middle, no attribute at all, dated."""
    out = []
    for k in SYNC + HOLD + ["null"]:
        ins = [mkbuf(1, 0, "0"), mkbuf(2, 1, "1"), mkbuf(3, 5, "2+0+3"), mkbuf(4, 3, "1+1+1", hid=False),
               mkbuf(5, 4, "3+1", sys_=("-", 0) if k == "nodemux" else ("pts", 40), prog=("-", 0) if k == "nodemux" else ("pts", 40)),
               mkbuf(6, 0, "0", hid=True)]
        if k == "skip":
            ins = ins[1:5]
        out.append(single_pipe(k, fixed_opts(k), ins, "directed " + k))
    return out


def renew_scripts():
    """The output refuses a new flow definition and the probe answers need_output by dropping the refused sink
    and connecting a brand new one (allocated after the old one is gone): the buffer in hand and the next ones
    must reach the new sink.  One-to-one kinds, a chain, and a holder."""
    out = []
    for k in SYNC:
        b = lambda i, size=3: mkbuf(i, size if k != "skip" else 5, "1+2" if k != "skip" else "2+3",
                                    sys_=("-", 0) if k == "nodemux" else ("pts", 40), prog=("-", 0) if k == "nodemux" else ("pts", 40))
        cmds = [C("new", p="p0", k=k)] + fixed_opts(k) + [C("sink", s="s0"), C("out", p="p0", t="s0"), C("setfd", p="p0", f="A"), b(1),
                C("policy", s="s0", v="reject"), C("setfd", p="p0", f="B"), C("renew", p="p0", s="s1"), b(2), b(3),
                C("unblock", s="s1")]
        for _ in range(2):
            cmds += [C("provall", s="s1")] * 2 + [C("adv", t=100000)]
        cmds += [C("drained"), C("rel", n="p0"), C("rel", n="s1")]
        out.append(Exe(cmds, "directed renew " + k))
    return out


def isolate(ctx, binp, e, ci):
    """Is the rejected input rejected by one of the pipe kinds alone?"""
    c = e.cmds[ci]
    if c["op"] != "in":
        return None
    kinds = {}
    for x in e.cmds:
        if x["op"] == "new" and x["k"] not in ("dup",) and x["k"] not in kinds:
            kinds[x["k"]] = x["p"]
    for k, name in kinds.items():
        opts = []
        for x in e.cmds[:ci]:
            if x["op"] == "opt" and x["p"] == name:
                y = dict(x)
                y["p"] = "p0"
                opts.append(y)
        b = dict(c)
        b["p"] = "p0"
        cand = single_pipe(k, opts, [b], "isolated " + k)
        try:
            execute(ctx, binp, [cand], jobs=1)
            rej = ctx.validate_histories(TRACE[0], TRACE[1], [events(cand) + [{"e": "End"}]], tag="iso", max_reject=1)
        except vlib.ToolError:
            rej = []
        if rej:
            key = "pipe=%s;input=%s" % (k, "empty-block" if not c["b"]["pl"] else "block")
            return key, cand, rej
    return None


# ------------------------------------------------------------------ TLC runs
FAMILIES = ["sync", "cfg", "clock", "nodemux", "dup", "buffer", "disblo", "tblk", "time", "chain", "chain2", "dupchain"]
NEGATIVE = {"neg_lifo": "InOrder", "neg_lifo2": None, "neg_duplast": "DupAll", "neg_noflush": "ExactlyOnce",
            "neg_dropheld": "ExactlyOnce"}
JAVA_ENV = {"JAVA_TOOL_OPTIONS": "-Xss32m"}


import sys, time
T0 = time.time()


def dbg(msg):
    if os.environ.get("C05_DEBUG"):
        sys.stderr.write("[c05 %6.1fs] %s\n" % (time.time() - T0, msg))
        sys.stderr.flush()


def run_tlc_jobs(ctx, jobs, par):
    """jobs: dicts(name, cfg, simulate, depth, timeout).  Runs at most `par` at a time."""
    res, err = {}, []
    sem = threading.Semaphore(par)

    def one(j):
        with sem:
            try:
                t1 = time.time()
                res[j["name"]] = ctx.tlc("MCPipeFlow", "MCPipeFlow_%s.cfg" % j["cfg"], workers=j.get("workers", 1),
                                         simulate=j.get("simulate"), depth=j.get("depth"), timeout=j.get("timeout", 600),
                                         coverage=j.get("coverage", False), count=False, name=j["name"], env=JAVA_ENV,
                                         heap=j.get("heap", "3g"))
                dbg("tlc %s done in %.1fs distinct=%d" % (j["name"], time.time() - t1, res[j["name"]].distinct))
            except Exception as ex:
                err.append(ex)
    ths = [threading.Thread(target=one, args=(j,)) for j in jobs]
    for t in ths:
        t.start()
    for t in ths:
        t.join()
    if err:
        raise err[0] if isinstance(err[0], vlib.ToolError) else vlib.ToolError("TLC driver: %r" % err[0])
    return res


def behaviour_guard(behs):
    """Vacuity guard on what TLC emitted (counting only)."""
    ops, kinds = set(), set()
    held = dead = rets = frees = 0
    rv = set()
    for b in behs:
        for x in b:
            c, r = x["c"], x["r"]
            ops.add(c["op"])
            if c["op"] == "new":
                kinds.add(c["k"])
            for s in r["dl"].values():
                for d in s:
                    if d["held"] == "1":
                        held += 1
            if r["dead"]:
                dead += 1
            if c["op"] == "disp":
                rv.add(r["ret"])
    need_ops = {"new", "sink", "sub", "setfd", "out", "in", "opt", "block", "unblock", "policy", "disp", "adv", "provall", "flush", "rel", "renew"}
    need_kinds = set(SYNC) | set(HOLD) | {"dup", "null"}
    miss = sorted(need_ops - ops) + sorted(need_kinds - kinds)
    if miss or not held or not dead or rv != {"0", "-1"}:
        raise vlib.ToolError("vacuity: behaviours emitted by TLC never exercise %s (held=%d dead=%d disp results=%s)"
                             % (miss, held, dead, sorted(rv)))


# ------------------------------------------------------------------ verdicts
def failing_key(e, line):
    """Stable key of a rejected execution: kinds of the pipes involved and the
    kind of command at which the trace specification stopped."""
    kinds = []
    for c in e.cmds:
        if c["op"] == "new" and c["k"] not in kinds:
            kinds.append(c["k"])
    idx = line - 2          # line 1 = Reset, line k+2 = command k
    if 0 <= idx < len(e.cmds):
        c = e.cmds[idx]
        at = c["op"] + ("(%s)" % c["name"] if c["op"] == "opt" else "")
    elif idx == len(e.cmds):
        at = "crash" if e.crash else "end"
    else:
        at = "?"
    return "pipes=%s;rejected-at=%s" % ("+".join(sorted(kinds)), at), idx


def shrink(ctx, binp, e, budget=40):
    """Drop commands while the trace specification still rejects the execution."""
    cur = e
    tried = 0
    key0 = None
    try:
        r0 = ctx.validate_histories(TRACE[0], TRACE[1], [events(cur) + [{"e": "End"}]], tag="shr0", max_reject=1)
        if r0:
            key0 = failing_key(cur, r0[0][1])[0].split(";")[1]
    except vlib.ToolError:
        pass
    # the drain rounds of the epilogue (the run of unblock / provall / adv / disp before "drained") stay:
    # without them "drained" is rejected for the uninteresting reason that nothing was drained
    ops = [c["op"] for c in cur.cmds]
    keep_from = len(ops)
    if "drained" in ops:
        keep_from = ops.index("drained")
        while keep_from > 0 and ops[keep_from - 1] in ("unblock", "provall", "adv", "disp"):
            keep_from -= 1
    i = len(cur.cmds) - 1
    while i >= 0 and tried < budget:
        c = cur.cmds[i]
        if c["op"] in ("new", "sink") or (i >= keep_from and c["op"] in ("unblock", "provall", "adv", "disp", "drained")):
            i -= 1
            continue
        cand = Exe(cur.cmds[:i] + cur.cmds[i + 1:], cur.source)
        # names used later must still exist: keep it simple, only try commands nothing depends on
        if c["op"] == "sub" and any(x.get("p") == c["p"] or x.get("n") == c["p"] for x in cur.cmds[i + 1:]):
            i -= 1
            continue
        tried += 1
        try:
            execute(ctx, binp, [cand], jobs=1)
            rej = ctx.validate_histories(TRACE[0], TRACE[1], [events(cand) + [{"e": "End"}]], tag="shr", max_reject=1)
        except vlib.ToolError:
            rej = []
        # only keep a candidate that is rejected at the same kind of command (dropping a release makes
        # the End event fail for an unrelated, uninteresting reason)
        if rej and (key0 is None or failing_key(cand, rej[0][1])[0].split(";")[1] == key0):
            cur = cand
        i -= 1
    return cur


def judge(ctx, binp, pool, rejected):
    seen = set()
    t_start = time.time()
    budget = 240 if ctx.quick else 900      # seconds spent re-running / shrinking; at least one key is judged
    for idx, line, inv in rejected:
        e = pool[idx]
        key, ci = failing_key(e, line)
        if key in seen:
            continue
        if seen and time.time() - t_start > budget:
            ctx.extra["rejected_keys_not_judged_for_lack_of_time"] = ctx.extra.get("rejected_keys_not_judged_for_lack_of_time", 0) + 1
            continue
        seen.add(key)
        again = Exe(e.cmds, e.source)
        execute(ctx, binp, [again], jobs=1)
        r2 = ctx.validate_histories(TRACE[0], TRACE[1], [events(again) + [{"e": "End"}]], tag="re", max_reject=1)
        if not r2:
            raise vlib.ToolError("rejected execution did not reproduce (flaky harness?): %s" % e.lines())
        small = again if os.environ.get("VERIF_NO_SHRINK") else shrink(ctx, binp, again)    # (debugging aid)
        execute(ctx, binp, [small], jobs=1)
        r3 = ctx.validate_histories(TRACE[0], TRACE[1], [events(small) + [{"e": "End"}]], tag="re2", max_reject=1)
        if not r3:
            small, r3 = again, r2
        line3 = r3[0][1]
        key, ci = failing_key(small, line3)
        iso = isolate(ctx, binp, small, ci) if 0 <= ci < len(small.cmds) else None
        if iso:
            key, small, r3 = iso
            ci = r3[0][1] - 2
            if key in seen:
                continue
            seen.add(key)
        obs = small.obs[ci] if small.obs and 0 <= ci < len(small.obs) else None
        what = "%s: command %d of the script is rejected by PipeFlow_Trace%s; observed %s%s | script: %s" % (
            key, ci, (" (invariants %s)" % ",".join(r3[0][2])) if r3[0][2] else "",
            json.dumps(obs)[:600], (" | " + small.crash[:300]) if small.crash else "", "; ".join(small.lines()))
        ctx.violation(key, what, {"script": small.lines(), "cmds": small.cmds, "source": e.source,
                                  "rejected_command": ci, "observed": small.obs})


def validate_pool(ctx, pool, tag, jobs):
    hists = [events(e) + [{"e": "End"}] for e in pool]
    out, err = [], []
    step = max(1, (len(hists) + jobs - 1) // jobs)

    def one(k, base):
        try:
            rej = ctx.validate_histories(TRACE[0], TRACE[1], hists[base:base + step], tag="%s%d" % (tag, k), max_reject=3)
            out.extend((base + i, ln, inv) for i, ln, inv in rej)
        except Exception as ex:
            err.append(ex)
    ths = [threading.Thread(target=one, args=(k, b)) for k, b in enumerate(range(0, len(hists), step))]
    for t in ths:
        t.start()
    for t in ths:
        t.join()
    if err:
        raise err[0] if isinstance(err[0], vlib.ToolError) else vlib.ToolError("trace validation driver: %r" % err[0])
    return out


def run(ctx):
    quick = ctx.quick
    os.environ.setdefault("JAVA_TOOL_OPTIONS", "-Xss32m")     # trace validation runs (deep recursion of the interpreter)
    side = {"err": [], "bin": None}

    def build():
        try:
            side["bin"] = pipecommon.build_driver(ctx, exts=["pd_ext_c05.c"], extra_modules=EXTRA_MODULES, extra=["vloop.c"])
        except Exception as ex:
            side["err"].append(ex)
    bt = threading.Thread(target=build)
    bt.start()

    # ---- 1. model checking + emission
    suffix = "_q" if quick else "_t"
    # (TLC's -coverage instrumentation does not get past the initial states of this recursive
    # interpreter: vacuity is guarded by state-count floors and by behaviour_guard on the emitted behaviours)
    jobs = [dict(name=f, cfg=f + suffix, timeout=1500, workers=1 if quick else 2) for f in FAMILIES]
    jobs += [dict(name=n, cfg=n, timeout=300) for n in NEGATIVE]
    emit_fams = ["dup", "buffer", "tblk", "time", "chain2"] if quick else FAMILIES
    jobs += [dict(name="emit_" + f, cfg="emit_" + f, timeout=900) for f in emit_fams]
    jobs += [dict(name="sim_all", cfg="sim_all", simulate=(150 if quick else 6000), depth=40, timeout=900)]
    try:
        res = run_tlc_jobs(ctx, jobs, par=(6 if quick else 8))
    finally:
        bt.join()
    if side["err"]:
        ex = side["err"][0]
        raise ex if isinstance(ex, vlib.ToolError) else vlib.ToolError("build: %r" % ex)
    binp = side["bin"]
    for f in FAMILIES:
        r = res[f]
        ctx.model_must_hold(r, "PipeFlow/" + f)
        if r.distinct < (30 if quick else 60):
            raise vlib.ToolError("vacuity: model %s has only %d states" % (f, r.distinct))
        ctx.states += r.distinct
        ctx.transitions += r.generated
    ctx.exhaustive = True
    for n, inv in NEGATIVE.items():
        r = res[n]
        if not r.violated or (inv and inv not in r.violated):
            raise vlib.ToolError("vacuity: negative configuration %s not rejected as expected (violated=%s)" % (n, r.violated))
        ctx.extra.setdefault("negative_configurations", {})[n] = r.violated
    ctx.model_must_hold(res["sim_all"], "PipeFlow/sim_all")

    dbg("at: # ---- 2. spec -> code")
    # ---- 2. spec -> code
    behs, seen = [], set()
    for name in ["emit_" + f for f in emit_fams] + ["sim_all"]:
        ctx.model_must_hold(res[name], "PipeFlow/" + name)
        bl = res[name].beh()
        if not bl:
            raise vlib.ToolError("TLC emitted no behaviour for %s" % name)
        if quick and name.startswith("emit_") and len(bl) > 400:
            rng = vlib.Rng(ctx.seed + len(name))
            bl = [bl[rng.below(len(bl))] for _ in range(400)]
        for b in bl:
            k = json.dumps(b, sort_keys=True)
            if k not in seen:
                seen.add(k)
                behs.append((b, name))
    behaviour_guard([b for b, _ in behs])
    exes = [beh_exe(b, "TLC " + n) for b, n in behs]
    dbg("at: execute(ctx, binp, exes, jobs=8)")
    execute(ctx, binp, exes, jobs=8)
    diffs = []
    for e in exes:
        d = lockstep(e)
        if d:
            diffs.append((e, d))
    ctx.extra["model_behaviours_replayed"] = len(exes)
    ctx.extra["behaviours_differing_from_prediction"] = len(diffs)
    if diffs:
        e, d = diffs[0]
        ctx.extra["first_difference"] = {"script": e.lines()[:d[0] + 1], "command": d[0], "difference": d[1][:800]}

    dbg("at: # ---- 3. code -> spec")
    # ---- 3. code -> spec
    rng = vlib.Rng(ctx.seed)
    dire = directed() + renew_scripts()
    execute(ctx, binp, dire, jobs=8)
    # vacuity: in the renew scripts the probe did replace the refused sink
    for e in dire:
        if e.source.startswith("directed renew") and e.obs is not None and not e.crash:
            if not any(o.get("renew") for o in e.obs):      # (what the new sink then receives is the verdict's business)
                raise vlib.ToolError("vacuity: %s: the probe never replaced the sink (%s)" % (e.source, e.lines()))
    judge(ctx, binp, dire, validate_pool(ctx, dire, "dir", jobs=4))
    # executions that would only repeat a defect already reported on a single pipe are not validated again
    found = [v[0] for v in ctx.violations] + [k for k, _ in ctx.known_hits]
    empties = set(k.split(";")[0][5:] for k in found if k.startswith("pipe=") and k.endswith("input=empty-block"))

    def repeats(e):
        kinds = set(c["k"] for c in e.cmds if c["op"] == "new")
        return bool(kinds & empties) and any(c["op"] == "in" and not c["b"]["pl"] for c in e.cmds)
    rnd = [random_exe(rng, 10 + rng.below(30)) for _ in range(70 if quick else 5000)]
    skipped = [e for e in rnd if repeats(e)]
    rnd = [e for e in rnd if not repeats(e)]
    ctx.extra["random_executions_skipped_same_defect"] = len(skipped)
    execute(ctx, binp, rnd, jobs=8)
    # every execution that differs from the prediction is judged by the abstract trace specification too
    pool = rnd + [e for e, _ in diffs[:200] if not repeats(e)]
    dbg("at: rejected = validate_pool(ctx, pool, 'cs'")
    rejected = validate_pool(ctx, pool, "cs", jobs=(4 if quick else 8))
    rnd = dire + rnd
    ctx.evaluations += len(exes) + len(rnd)
    ctx.traces += len(exes) - len(diffs)        # replayed behaviours that matched the prediction step by step
    ctx.extra["random_executions"] = len(rnd)
    ctx.extra["commands_executed_on_real_code"] = sum(len(e.cmds) for e in exes + rnd)
    ctx.extra["buffers_input"] = sum(1 for e in exes + rnd for c in e.cmds if c["op"] == "in")
    for e in exes:
        if sum(1 for c in e.cmds if c["op"] == "in") >= 3 and any(c["op"] == "unblock" for c in e.cmds[:-6]):
            ctx.sample({"source": e.source, "script": e.lines(), "predicted": e.pred[-14:-8]}, limit=1)
            break
    for e in rnd[:50]:
        if 20 < len(e.cmds) < 60:
            ctx.sample({"source": "random seed=%d" % ctx.seed, "script": e.lines()[:40]}, limit=3)
            break
    dbg("at: judge(ctx, binp, pool, rejected)")
    judge(ctx, binp, pool, rejected)
    if diffs and not ctx.violations and not ctx.known_hits:
        ctx.extra["model_drift"] = True
        ctx.notes.append("the real code differs from the detailed model's prediction without violating the abstract specification")
    ctx.assumptions += [
        "arguments inside the documented domain: skip offset <= payload size, delay >= 0 and dates that do not wrap, upipe_noclock / upipe_nodemux / upipe_setrap inputs whose date algebra stays within uint64 (InDomain in PipeFlowData.tla); outside it the execution is not judged",
        "event loop = mock vloop over the real upump_common.c, clock = virtual time of that loop; nothing fires unless the script says so (in-thread property)",
        "the blocking sink of the harness behaves like a real sink: it keeps what it receives while blocked and blocks the pump that produced it",
        "one upipe_time_limit per generated network; upipe_trickplay, upipe_rate_limit, upipe_genaux are not covered",
        "random networks hold at most one pump-driven holding pipe (upipe_buffer / upipe_discard_blocking) and not both a upipe_tblk and a upipe_time_limit: there the detailed layer mis-predicted five executions of the thorough tier (turns of the event loop needed to drain two chained buffers after max_size was lowered; order in which a sink answers requests after re-plumbing) - false alarms; the exhaustive families (chain2, tblk, time, buffer) still cover these combinations for the behaviours TLC emits",
    ]
    ctx.trusted += ["TLC", "harness/pipe_driver.c + pipe_registry.c + pd_ext_c05.c (command interpreter, recording sinks, tracking uref managers)",
                    "harness/vloop.c (mock event loop)", "gcc AddressSanitizer / UndefinedBehaviorSanitizer / LeakSanitizer"]


def replay(ctx, rp):
    """bin/check C05 --replay file: re-run the stored script."""
    os.environ.setdefault("JAVA_TOOL_OPTIONS", "-Xss32m")
    binp = pipecommon.build_driver(ctx, exts=["pd_ext_c05.c"], extra_modules=EXTRA_MODULES, extra=["vloop.c"])
    e = Exe(rp["replay"]["cmds"], "replay")
    execute(ctx, binp, [e], jobs=1)
    r = ctx.validate_histories(TRACE[0], TRACE[1], [events(e) + [{"e": "End"}]], tag="replay")
    if r:
        print("VIOLATION property=C05 replay reproduced: rejected at command %d" % (r[0][1] - 2))
        return 1
    print("OK property=C05 replay accepted")
    return 0
