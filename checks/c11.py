"""C11 - timestamp algebra: the cr / dts / pts views of a date stay consistent.

1. TLC checks spec/UrefClock.tla exhaustively for W = 3 (all 8 words incl.
   the unset word, three domains sharing the delays, every sequence of
   operations up to a depth bound): Algebra, RebasePreserves, SetReadsBack,
   RapNotAfterCr.  Coverage of every kind of operation (success and failure
   branches) is required; five deliberately broken variants of the model must
   be rejected.
2. spec -> code: the SAME module instantiated for W = 64 (four 16-bit limbs)
   generates behaviours in TLC simulation mode with the result the
   specification predicts for every call and for all 15 observable values
   after every call; harness/replay_clock.c executes them on real urefs and
   the outputs are compared string by string.
3. code -> spec: seeded random 64-bit scripts are executed by the harness and
   the recorded (call, result) traces are validated by
   spec/UrefClock_Trace.tla (W = 64), the property invariants being evaluated
   on every state of every trace.
A disagreement is reproduced by re-running the script, confirmed by TLC on
the recorded trace, shrunk, and only then reported.  python holds no oracle:
it only converts between TLC's JSON, the harness's text and ndjson.
"""
import json, os
from concurrent.futures import ThreadPoolExecutor
import vlib

LEVEL = "model_checking"
MASK = (1 << 64) - 1
DOMS = ["sys", "prog", "orig"]
DELAYS = ["dtsPts", "crDts", "rapCr"]
FLAGS = ["set_disc", "del_disc", "del_end", "del_random", "set_start", "del_start", "del_ref", "copy_end", "copy_ref", "set_random"]
TYN = {0: "none", 1: "cr", 2: "dts", 3: "pts", 4: "rap"}
NEG = [("rebase_noconv", "RebasePreserves"), ("rap_after_cr", "RapNotAfterCr"),
       ("dup_drops_delay", "RebasePreserves"), ("getdts_wrong_delay", "Algebra"),
       ("setdate_keeps_type", "SetReadsBack"), ("flag_clears_types", "RebasePreserves")]
ACTIONS = ["KSetDate", "KRebaseOk", "KRebaseErr", "KDelete", "KAdd", "KAddUnspec", "KSetDelay",
           "KDelDelay", "KSetRapOk", "KSetRapErr", "KDup", "KFlag", "KGet", "KGetDelay"]
SRCS = ["replay_clock.c", "lib/upipe/uref_std.c", "lib/upipe/udict_inline.c", "lib/upipe/umem_alloc.c"]


# ------------------------------------------------------------ representation
def limbs(v):
    return [(v >> (16 * i)) & 0xFFFF for i in range(4)]


def unl(l):
    return sum(x << (16 * i) for i, x in enumerate(l))


def hx(l):
    """a word as TLC prints it (limb tuple; [] = absent) -> harness text"""
    return "-" if not l else "%x" % unl(l)


def step_of_call(c):
    """call record of a TLC behaviour -> step"""
    return {"op": c["op"], "dom": c["dom"], "ty": c["ty"], "v": unl(c["v"])}


def cmd_of(s):
    op = s["op"]
    if op == "SetDate":
        return "setdate %s %d %x" % (s["dom"], s["ty"], s["v"])
    if op == "Rebase":
        return "rebase %s %d" % (s["dom"], s["ty"])
    if op == "DeleteDate":
        return "delete %s" % s["dom"]
    if op == "AddDate":
        return "add %s %x" % (s["dom"], s["v"])
    if op == "SetDelay":
        return "setdelay %s %x" % (s["dom"], s["v"])
    if op == "DeleteDelay":
        return "deldelay %s" % s["dom"]
    if op == "SetRap":
        return "setrap %s %x" % (s["dom"], s["v"])
    if op == "Dup":
        return "dup %s" % s["dom"]
    if op == "Flag":
        return "flag %s" % s["dom"]
    if op == "Get":
        return "get %s %d" % (s["dom"], s["ty"])
    if op == "GetDelay":
        return "getdelay %s" % s["dom"]
    raise vlib.ToolError("unknown operation %r" % (s,))


def name_of(s):
    op = s["op"]
    if op in ("SetDate", "Rebase", "Get"):
        return "%s(%s,%s)" % (op, s["dom"], TYN[s["ty"]])
    return "%s(%s)" % (op, s["dom"])


def expected_line(c, g):
    """the output line the harness must print if the code does what TLC predicts"""
    op = c["op"]
    ret = ("ok" if c["ok"] else "err") if op in ("Rebase", "SetRap", "Get", "GetDelay") else "-"
    val = hx(c["res"]) if op in ("Get", "GetDelay") else "-"
    return "%s %s | %s" % (ret, val, " ".join(hx(x) for x in g))


def parse_line(line):
    head, _, tail = line.partition("|")
    h = head.split()
    if len(h) != 2:
        raise vlib.ToolError("bad harness line %r" % line)
    g = tail.split()
    return h[0], h[1], (None if g == ["*"] else g)


def word_json(t):
    return [] if t == "-" else limbs(int(t, 16))


def event_of(s, line):
    """(step, harness output) -> ndjson event of UrefClock_Trace"""
    ret, val, g = parse_line(line)
    op = s["op"]
    e = {"e": op}
    if op in ("SetDate", "Rebase", "Get"):
        e["dom"], e["ty"] = s["dom"], s["ty"]
    elif op in ("DeleteDate", "AddDate", "SetRap"):
        e["dom"] = s["dom"]
    elif op in ("SetDelay", "DeleteDelay", "GetDelay"):
        e["w"] = s["dom"]
    elif op in ("Dup", "Flag"):
        e["which"] = s["dom"]
    if op in ("SetDate", "AddDate", "SetDelay", "SetRap"):
        e["v"] = limbs(s["v"])
    if op in ("Rebase", "SetRap"):
        e["ok"] = 1 if ret == "ok" else 0
    if op in ("Get", "GetDelay"):
        e["r"] = word_json(val) if ret == "ok" else []
    if g is not None:
        e["g"] = [word_json(x) for x in g]
    return e


def reset_event(line):
    _, _, g = parse_line(line)
    e = {"e": "Reset"}
    if g is not None:
        e["g"] = [word_json(x) for x in g]
    return e


# ------------------------------------------------------------------- harness
def run_execs(ctx, binp, execs, max_crashes=None):
    """execs: list of (audit, steps).  One process; returns for each
    execution the output lines (first = the reset).
    A command of the code under test that crashes (sanitizer, assert) or does
    not return (the harness runs every command under an alarm: exit status 5)
    produces no result line: the execution's output then ends with a line
    "CRASH <why>", which becomes an event the trace module has no action for.
    The process is restarted after that execution; after MAX_CRASHES crashed
    executions the remaining ones are not run and get None (callers drop them:
    a broken tree must yield a verdict, not a crawl)."""
    if max_crashes is None:
        max_crashes = MAX_CRASHES
    out = [None] * len(execs)
    start = 0
    crashes = 0
    while start < len(execs) and crashes < max_crashes:
        script, owner = [], []
        for i in range(start, len(execs)):
            audit, steps = execs[i]
            script.append("audit %d" % (1 if audit else 0))
            owner.append(None)                      # prints nothing
            script.append("reset")
            owner.append(i)
            script += [cmd_of(s) for s in steps]
            owner += [i] * len(steps)
        r = ctx.run([binp], input="\n".join(script) + "\n", timeout=600)
        lines = r.stdout.splitlines()
        expect = [o for o in owner if o is not None]
        if r.returncode == 0 and len(lines) != len(expect):
            raise vlib.ToolError("replay_clock: %d lines for %d commands" % (len(lines), len(expect)))
        if r.returncode in (2, 3):                  # the harness's own script errors
            raise vlib.ToolError("replay_clock failed rc=%s: %s" % (r.returncode, (r.stderr or "")[-2000:]))
        for k in range(min(len(lines), len(expect))):
            i = expect[k]
            if out[i] is None:
                out[i] = []
            out[i].append(lines[k])
        if r.returncode == 0:
            start = len(execs)
            break
        if len(lines) >= len(expect):
            raise vlib.ToolError("replay_clock failed after the last command rc=%s: %s"
                                 % (r.returncode, (r.stderr or "")[-2000:]))
        i = expect[len(lines)]
        if not out[i]:
            raise vlib.ToolError("replay_clock crashed in reset rc=%s: %s" % (r.returncode, (r.stderr or "")[-2000:]))
        why = ("hang (command did not return within the harness alarm)" if r.returncode == 5 else
               "time-out" if r.returncode == 124 else
               "rc=%s %s" % (r.returncode, " ".join((r.stderr or "").split())[-200:]))
        out[i].append("CRASH " + why)
        crashes += 1
        start = i + 1
    return out


MAX_CRASHES = 5


NOT_RUN = [0]


def hist_of(steps, lines):
    if lines is None:
        # not executed (batch cut short after MAX_CRASHES crashed executions): a bare
        # Reset keeps the positions of the other executions; counted in NOT_RUN and
        # taken off the number of validated traces at the end of run()
        NOT_RUN[0] += 1
        return [{"e": "Reset"}]
    h = [reset_event(lines[0])]
    for s, l in zip(steps, lines[1:]):
        if l.startswith("CRASH"):
            h.append({"e": "Crash", "why": l[6:]})
            break
        h.append(event_of(s, l))
    return h


def validate(ctx, hists, tag, max_reject=4):
    return ctx.validate_histories("UrefClock_Trace", "UrefClock_Trace.cfg", hists, tag=tag,
                                  max_reject=max_reject, timeout=900)


def judge_and_report(ctx, binp, audit, steps, source, prediction=None):
    """An execution of the real code disagreed with the specification (or was
    rejected by trace validation).  Re-run it, let TLC judge the recorded
    trace, shrink it, report it.  Returns True if reported."""
    lines = run_execs(ctx, binp, [(audit, steps)])[0]
    before = ctx.traces
    notrun_before = NOT_RUN[0]      # re-runs / shrinking are not counted (either way)
    rej = validate(ctx, [hist_of(steps, lines)], "re", max_reject=1)
    if not rej:
        ctx.traces = before
        NOT_RUN[0] = notrun_before
        # kept for the caller's error message: what the re-run looked like
        ctx.extra["last_unreproduced"] = {"source": source, "steps": len(steps),
                                          "rerun_lines": len(lines), "rerun_tail": lines[-2:]}
        return False
    steps = steps[:max(1, rej[0][1] - 1)]
    props = rej[0][2]
    # shrink: drop one step at a time while TLC still rejects the recorded trace
    for _ in range(12):
        cands = [steps[:i] + steps[i + 1:] for i in range(len(steps))]
        cands = [c for c in cands if c]
        if not cands:
            break
        # only the first rejected candidate is used: one crashed / hung candidate
        # per round is enough (each costs the harness alarm)
        outs = run_execs(ctx, binp, [(audit, c) for c in cands], max_crashes=1)
        r = validate(ctx, [hist_of(c, o) for c, o in zip(cands, outs)], "shrink", max_reject=1)
        if not r:
            break
        steps = cands[r[0][0]][:max(1, r[0][1] - 1)]
        props = r[0][2] or props
    ctx.traces = before
    NOT_RUN[0] = notrun_before
    lines = run_execs(ctx, binp, [(audit, steps)])[0]
    key = "ops=" + ";".join(name_of(s) for s in steps)
    what = ("the real uref_clock API disagrees with UrefClock.tla (W=64) after %s: code prints '%s'%s"
            % (" ".join(cmd_of(s) for s in steps)[:300], lines[-1],
               (" [properties violated on the trace: %s]" % ",".join(props)) if props else ""))
    ctx.violation(key, what, {"script": [cmd_of(s) for s in steps], "steps": steps, "audit": audit,
                              "code_output": lines, "source": source, "prediction": prediction,
                              "cmd": "harness/replay_clock < script (prefix the script with 'audit %d')" % audit})
    return True


# --------------------------------------------------------------- generators
EDGE = [0, 1, 2, 1 << 63, MASK - 2, MASK - 1, MASK]
KINDS = ["SetDate"] * 5 + ["Rebase"] * 4 + ["AddDate"] * 2 + ["DeleteDate"] + ["SetDelay"] * 3 + \
        ["DeleteDelay"] + ["SetRap"] * 2 + ["Dup"] + ["Flag"] * 2 + ["Get"] * 5 + ["GetDelay"]


def rnd_val(rng, pool):
    k = rng.below(10)
    if k < 3:
        v = rng.choice(EDGE)
    elif k < 5:
        v = rng.below(48)
    elif k < 6:
        v = rng.next()
    elif k < 7:
        v = MASK - rng.below(48)
    elif pool:
        a, b = rng.choice(pool), rng.choice(pool)
        v = rng.choice([a, (a + b) & MASK, (a - b) & MASK, (a + 1) & MASK, (a - 1) & MASK, (b - a - 1) & MASK])
    else:
        v = rng.below(48)
    pool.append(v)
    return v


def rnd_exec(rng, n):
    pool, steps = [], []
    for _ in range(n):
        op = rng.choice(KINDS)
        s = {"op": op, "dom": rng.choice(DOMS), "ty": 0, "v": 0}
        if op in ("SetDate", "Rebase"):
            s["ty"] = 1 + rng.below(3)
        elif op == "Get":
            s["ty"] = 1 + rng.below(4)
        elif op in ("SetDelay", "DeleteDelay", "GetDelay"):
            s["dom"] = rng.choice(DELAYS)
        elif op == "Dup":
            s["dom"] = rng.choice(["copy", "orig"])
        elif op == "Flag":
            s["dom"] = rng.choice(FLAGS)
        if op in ("SetDate", "AddDate", "SetDelay", "SetRap"):
            s["v"] = rnd_val(rng, pool)
        steps.append(s)
    return steps


# ----------------------------------------------------------------------- run
def build(ctx):
    return ctx.cc("replay_clock", SRCS, san="asan")


def run(ctx):
    binp = build(ctx)
    q = ctx.quick
    ctx.assumptions += [
        "set_date's recording of a delay when the stored date moves to a later stage (cr->dts, cr->pts, dts->pts) is taken as the documented behaviour (property anchor 'set_date records the delay'); dates are only set as cr/dts/pts (never uref_clock_set_date_x(.., UREF_DATE_NONE))",
        "Unspecified, both outcomes accepted: uref_clock_add_date_x on a typed date whose stored word is UINT64_MAX (the code treats it as unset and adds nothing); such steps are not generated for replay and both successors are kept in trace validation",
        "storing UINT64_MAX in a delay (explicitly or as a computed difference) is the same as deleting it; a getter may return UINT64_MAX as a value with UBASE_ERR_NONE",
    ]
    pool = ThreadPoolExecutor(max_workers=6)

    # 1. exhaustive model checking, W = 3 ------------------------------------
    depth_cfg = "w3_d3" if q else "w3_d5"
    f_pos = pool.submit(ctx.tlc, "UrefClock", "MCUrefClock_%s.cfg" % depth_cfg,
                        workers=(2 if q else 8), heap=("4g" if q else "16g"),
                        timeout=(240 if q else 1700), coverage=True)

    def negs():
        out = []
        for v, prop in NEG:
            out.append((v, prop, ctx.tlc("UrefClock", "MCUrefClock_neg_%s.cfg" % v, workers=1, count=False,
                                         timeout=240)))
        return out
    f_neg = pool.submit(negs)

    # 2. behaviours of the W = 64 instance (simulation) ----------------------
    nsim = 300 if q else 3500
    seeds = [ctx.seed] if q else [ctx.seed + 1000 * i for i in range(4)]
    f_gen = [pool.submit(ctx.tlc, "UrefClock", "MCUrefClock_gen64.cfg", workers=1, simulate=nsim, depth=40,
                         count=False, timeout=(240 if q else 1500), seed=sd, name="gen64_%d" % sd)
             for sd in seeds]

    # 3. random scripts on the real code (meanwhile) -------------------------
    rng = vlib.Rng(ctx.seed)
    nexec, nops = (240, 40) if q else (6000, 50)
    execs = [(i % 2 == 0, rnd_exec(rng, nops)) for i in range(nexec)]
    outs = run_execs(ctx, binp, execs)
    ctx.evaluations += sum(len(st) for _, st in execs)

    def val_chunk(k, lo, hi):
        hs = [hist_of(execs[i][1], outs[i]) for i in range(lo, hi)]
        return lo, validate(ctx, hs, "rnd%d" % k)
    chunk = 1000
    f_val = [pool.submit(val_chunk, k, lo, min(lo + chunk, nexec))
             for k, lo in enumerate(range(0, nexec, chunk))]

    # collect: model -----------------------------------------------------------
    res = f_pos.result()
    ctx.model_must_hold(res, "UrefClock/" + depth_cfg)
    ctx.require_coverage(res, ["KSetDate", "KSetDelay"])
    missing = [a for a in ACTIONS if res.coverage.get(a, (0, 0))[1] == 0]
    if missing:
        raise vlib.ToolError("vacuity: operations never performed in the exhaustive run: %s" % missing)
    ctx.extra["exhaustive_model"] = {"W": 3, "words": 8, "domains": 3, "depth": int(depth_cfg[-1]),
                                     "distinct": res.distinct, "generated": res.generated,
                                     "operations_performed": {a: res.coverage[a][1] for a in ACTIONS}}
    for v, prop, r in f_neg.result():
        if prop not in r.violated:
            raise vlib.ToolError("vacuity: broken model variant %s not rejected on %s (violated=%s)"
                                 % (v, prop, r.violated))
    ctx.extra["negative_variants_rejected"] = [v for v, _ in NEG]

    # collect: spec -> code ------------------------------------------------------
    behs, seen = [], set()
    for f in f_gen:
        r = f.result()
        ctx.model_must_hold(r, "UrefClock/gen64 (W=64 instance, sampled behaviours)")
        for b in r.beh():
            k = json.dumps(b, sort_keys=True)
            if k not in seen:
                seen.add(k)
                behs.append(b)
    if len(behs) < nsim // 2:
        raise vlib.ToolError("behaviour generation: only %d behaviours from TLC" % len(behs))
    bsteps = [[step_of_call(st["c"]) for st in b] for b in behs]
    bouts = run_execs(ctx, binp, [(True, st) for st in bsteps])
    nsteps = mism = 0
    opcount = {}
    notrun = sum(1 for l in bouts if l is None)
    for b, steps, lines in zip(behs, bsteps, bouts):
        if lines is None:       # not executed: batch cut short after crashed executions
            continue
        first = None
        for i, st in enumerate(b):
            want = expected_line(st["c"], st["g"])
            got = " ".join(lines[i + 1].split())
            nsteps += 1
            o = st["c"]["op"] + ("" if st["c"]["ok"] else "/err")
            opcount[o] = opcount.get(o, 0) + 1
            if want != got:
                first = (i, want, got)
                break
        if first is not None:
            mism += 1
            if mism <= 3:
                i, want, got = first
                ok = judge_and_report(ctx, binp, True, steps[:i + 1], "behaviour of UrefClock (W=64) generated by TLC",
                                      {"step": i, "tlc_predicts": want, "code_prints": got})
                if not ok:
                    raise vlib.ToolError("prediction and code differ (%r vs %r after %s) but TLC accepts the recorded trace"
                                         % (want, got, [cmd_of(s) for s in steps[:i + 1]]))
    ctx.traces += len(behs) - mism - notrun
    ctx.evaluations += nsteps
    ctx.extra["spec_to_code"] = {"behaviours_replayed": len(behs), "steps_compared": nsteps,
                                 "values_compared": nsteps * 16, "mismatching_behaviours": mism,
                                 "operations": opcount}
    if behs:
        b = behs[min(7, len(behs) - 1)]
        ctx.sample({"kind": "TLC behaviour (W=64) replayed on real urefs",
                    "steps": [{"cmd": cmd_of(step_of_call(st["c"])), "tlc_predicts": expected_line(st["c"], st["g"])}
                              for st in b[:12]]}, limit=3)

    # collect: code -> spec ------------------------------------------------------
    nrej = 0
    for f in f_val:
        lo, rej = f.result()
        for idx, line, inv in rej:
            nrej += 1
            if nrej <= 3:
                audit, steps = execs[lo + idx]
                ok = judge_and_report(ctx, binp, audit, steps[:max(1, line - 1)],
                                      "random script seed=%d execution %d" % (ctx.seed, lo + idx))
                if not ok:
                    raise vlib.ToolError("rejected trace did not reproduce (execution %d, rejected at line %d of %d "
                                         "recorded lines, batch tail %r; re-run: %r)"
                                         % (lo + idx, line, len(outs[lo + idx] or []), (outs[lo + idx] or [])[-2:],
                                            ctx.extra.get("last_unreproduced")))
    ctx.extra["code_to_spec"] = {"random_executions": nexec, "operations_each": nops,
                                 "with_audit_after_every_call": (nexec + 1) // 2, "rejected": nrej}
    if outs[1] is not None:
        ctx.sample({"kind": "recorded trace of the real code (validated by UrefClock_Trace)",
                    "events": hist_of(execs[1][1], outs[1])[:10]}, limit=3)
    if NOT_RUN[0] or notrun:
        # executions that were not run on the real code are not validated traces
        ctx.traces = max(0, ctx.traces - NOT_RUN[0])
        ctx.extra["executions_skipped_after_crashes"] = NOT_RUN[0] + notrun
    pool.shutdown()
    ctx.trusted += ["TLC", "harness/replay_clock.c (calls the API, prints what it returns)",
                    "python conversion between TLC JSON / harness text / ndjson (no expected values computed)"]


def replay(ctx, rp):
    """bin/check C11 --replay replays/C11_xxx.json"""
    binp = build(ctx)
    r = rp["replay"]
    steps, audit = r["steps"], r["audit"]
    lines = run_execs(ctx, binp, [(audit, steps)])[0]
    rej = validate(ctx, [hist_of(steps, lines)], "replay", max_reject=1)
    for s, l in zip([None] + steps, lines):
        print("  %-40s -> %s" % (cmd_of(s) if s else "reset", l))
    if rej:
        print("VIOLATION property=C11 reproduced: TLC rejects the recorded trace at line %d %s" % (rej[0][1], rej[0][2]))
        return 1
    print("OK property=C11 replay not reproduced (trace accepted)")
    return 0
