"""Shared machinery of the block-buffer checks C03 (byte-string semantics) and
C02 (copy-on-write isolation; block part).

spec -> code : behaviours of spec/MCBlockBuf.tla (calls + predicted results)
               are replayed on harness/replay_block.c (real ubuf_block /
               uref_block API on ubuf_block_mem) and compared result by result;
code -> spec : every execution (replayed behaviours and seeded random scripts)
               is turned into an ndjson trace and validated by
               spec/BlockBuf_Trace.tla.
Python holds no oracle: it formats commands, parses result lines and compares
them with what TLC predicted (equality, honouring the "not specified" flags
the specification itself put in the behaviour).
"""
import json, os, time
import vlib

FILL = 14
SRCS = ["replay_block.c", "lib/upipe/ubuf_block_mem.c", "lib/upipe/ubuf_mem_common.c",
        "lib/upipe/umem_alloc.c", "lib/upipe/umem_pool.c", "lib/upipe/uref_std.c",
        "lib/upipe/udict_inline.c"]

# manager configurations (argv of the harness).  "direct": behaviours of a
# model with Pre = pre can be compared result by result (align = 0: the room in
# front of the data is exactly the manager's prepend).
CONFIGS = [
    {"name": "p0_pre2", "args": {"pool": 0, "pre": 2, "app": 0, "align": 0}},
    {"name": "p4_pre2_app3_upool", "args": {"pool": 4, "pre": 2, "app": 3, "align": 0, "umem": "pool"}},
    {"name": "p1_pre0", "args": {"pool": 1, "pre": 0, "app": 0, "align": 0}},
    {"name": "p2_pre2_align16", "args": {"pool": 2, "pre": 2, "app": 15, "align": 16, "aoff": 0}},
    {"name": "p0_pre1_align4_uref", "args": {"pool": 0, "pre": 1, "app": 1, "align": 4, "aoff": -1, "api": "uref"}},
    {"name": "p3_pre2_uref", "args": {"pool": 3, "pre": 2, "app": 0, "align": 0, "api": "uref"}},
]

MUTATORS = {"alloc", "dup", "splice", "split", "copy", "merge", "append", "insert", "delete",
            "truncate", "resize", "prepend", "wmap", "poke", "free"}
CFUNC = {"alloc": "ubuf_block_alloc", "dup": "ubuf_dup", "splice": "ubuf_block_splice",
         "split": "ubuf_block_split", "copy": "ubuf_block_copy", "merge": "ubuf_block_merge",
         "append": "ubuf_block_append", "insert": "ubuf_block_insert", "delete": "ubuf_block_delete",
         "truncate": "ubuf_block_truncate", "resize": "ubuf_block_resize", "prepend": "ubuf_block_prepend",
         "wmap": "ubuf_block_write", "poke": "ubuf_block_write", "free": "ubuf_free",
         "size": "ubuf_block_size", "read": "ubuf_block_read", "rd1": "ubuf_block_read",
         "peek": "ubuf_block_peek", "extract": "ubuf_block_extract", "iovec": "ubuf_block_iovec_read",
         "slin": "ubuf_block_size_linear", "scan": "ubuf_block_scan", "find": "ubuf_block_find",
         "compare": "ubuf_block_compare", "equal": "ubuf_block_equal", "match": "ubuf_block_match",
         "audit": "ubuf_block_extract"}


# ------------------------------------------------------------------ commands
def enc(bs):
    return "b" + "".join("0123456789abcdef"[x] for x in bs)


def dec(tok):
    if not tok.startswith("b"):
        raise vlib.ToolError("replay_block: bad octet token %r" % tok)
    return [int(ch, 16) if ch != "z" else 255 for ch in tok[1:]]


def cmd(op, a, ib=(), ib2=()):
    return {"op": op, "a": list(a), "ib": list(ib), "ib2": list(ib2)}


def cmd_text(c):
    op, a = c["op"], c["a"]
    H = lambda i: "h%d" % a[i]
    if op == "alloc":
        return "alloc %s %d %s" % (H(0), a[1], enc(c["ib"]))
    if op == "dup":
        return "dup %s %s" % (H(0), H(1))
    if op in ("splice", "copy"):
        return "%s %s %s %d %d" % (op, H(0), H(1), a[2], a[3])
    if op == "split":
        return "split %s %s %d" % (H(0), H(1), a[2])
    if op in ("merge", "delete", "resize", "read", "rd1", "peek", "extract", "iovec"):
        return "%s %s %d %d" % (op, H(0), a[1], a[2])
    if op in ("append", "equal"):
        return "%s %s %s" % (op, H(0), H(1))
    if op in ("insert", "compare"):
        return "%s %s %d %s" % (op, H(0), a[1], H(2))
    if op in ("truncate", "prepend", "wmap", "slin"):
        return "%s %s %d" % (op, H(0), a[1])
    if op in ("poke", "scan"):
        return "%s %s %d %d" % (op, H(0), a[1], a[2])
    if op in ("free", "size", "audit"):
        return "%s %s" % (op, H(0))
    if op == "find":
        return "find %s %d %s" % (H(0), a[1], " ".join(str(x) for x in c["ib"]))
    if op == "match":
        return "match %s %s %s" % (H(0), enc(c["ib"]), enc(c["ib2"]))
    raise vlib.ToolError("unknown op " + op)


def parse_result(c, line):
    """result line of the harness -> fields r, n, b, ps, pe, pb"""
    op = c["op"]
    t = line.split()
    res = {"r": t[0] if t else "crash", "n": -1, "b": [], "ps": [], "pe": [], "pb": []}
    if not t or t[0] == "bad":
        raise vlib.ToolError("replay_block refused %r -> %r" % (cmd_text(c), line))
    try:
        if t[0] == "okfree":
            for i in range(1, len(t), 2):
                res["ps"].append(-1 if t[i] == "big" else int(t[i]))
                if t[i + 1] == "err":
                    res["pe"].append(0)
                    res["pb"].append([])
                else:
                    res["pe"].append(1)
                    res["pb"].append(dec(t[i + 1]))
        elif op in ("alloc", "copy", "merge", "size", "slin") and t[0] == "ok":
            res["n"] = int(t[1])
        elif op in ("scan", "find"):
            res["n"] = int(t[1])
        elif op in ("read", "iovec") and t[0] == "ok":
            res["b"] = dec(t[1])
            res["n"] = int(t[2])
        elif op in ("rd1", "peek", "extract") and t[0] == "ok":
            res["b"] = dec(t[1])
        elif op == "audit" and t[0] == "ok":
            res["n"] = -1 if t[1] == "big" else int(t[1])
            if t[2] == "err":
                res["r"] = "auditerr"
            else:
                res["b"] = dec(t[2])
    except (IndexError, ValueError):
        raise vlib.ToolError("replay_block: cannot parse %r -> %r" % (cmd_text(c), line))
    return res


def event(c, res):
    e = {"e": c["op"], "a": c["a"], "ib": c["ib"], "ib2": c["ib2"]}
    e.update(res)
    return e


def cfg_argv(cfg):
    return ["%s=%s" % (k, v) for k, v in cfg["args"].items()] + ["fill=%d" % FILL]


def reset_event(cfg):
    return {"e": "Reset", "pre": cfg["args"].get("pre", 0), "align": cfg["args"].get("align", 0),
            "cfg": cfg["name"]}


# ------------------------------------------------------------------- harness
class Harness:
    def __init__(self, ctx):
        self.ctx = ctx
        self.bin = ctx.cc("replay_block", SRCS, san="asan")
        self.env = {"ASAN_OPTIONS": "detect_leaks=0:abort_on_error=0:exitcode=66",
                    "UBSAN_OPTIONS": "print_stacktrace=1:halt_on_error=1"}
        self.commands_run = 0
        self.crashes = []

    def run_batch(self, cfg, scripts):
        """scripts: list of command lists.  Returns, per script, the list of
        result dicts (the last one may be {"r": "crash"} if the process died)."""
        out = [None] * len(scripts)
        todo = list(range(len(scripts)))
        while todo:
            lines = []
            for k in todo:
                lines.append("reset")
                lines += [cmd_text(c) for c in scripts[k]]
            r = self.ctx.run([self.bin] + cfg_argv(cfg), input="\n".join(lines) + "\n",
                             timeout=600, env=self.env)
            if r.returncode == 124:
                raise vlib.ToolError("replay_block timed out (%s)" % cfg["name"])
            got = r.stdout.splitlines()
            pos = 0
            died_at = None
            for idx, k in enumerate(todo):
                if pos >= len(got) or got[pos] != "reset":
                    died_at = idx
                    break
                pos += 1
                res = []
                for c in scripts[k]:
                    if pos >= len(got) or got[pos] in ("end",):
                        break
                    res.append(parse_result(c, got[pos]))
                    pos += 1
                self.commands_run += len(res)
                if len(res) < len(scripts[k]):
                    # the process died inside this execution
                    if r.returncode == 0:
                        raise vlib.ToolError("replay_block: short output without a crash")
                    res.append({"r": "crash", "n": -1, "b": [], "ps": [], "pe": [], "pb": []})
                    self.crashes.append({"cfg": cfg["name"], "stderr": (r.stderr or "")[-1500:]})
                    out[k] = res
                    died_at = idx + 1
                    break
                out[k] = res
            if died_at is None:
                if r.returncode != 0:
                    raise vlib.ToolError("replay_block failed rc=%d after all commands: %s"
                                         % (r.returncode, (r.stderr or "")[-1500:]))
                break
            if died_at == 0:
                raise vlib.ToolError("replay_block died at start rc=%d: %s" % (r.returncode, (r.stderr or "")[-1500:]))
            todo = todo[died_at:]
        return out

    def run_one(self, cfg, script):
        return self.run_batch(cfg, [script])[0]


def to_events(cfg, script, results):
    ev = [reset_event(cfg)]
    for c, r in zip(script, results):
        if r["r"] == "crash":
            ev.append({"e": "crash", "a": c["a"], "ib": [], "ib2": [], "r": "crash", "n": -1,
                       "b": [], "ps": [], "pe": [], "pb": [], "during": cmd_text(c)})
        else:
            ev.append(event(c, r))
    return ev


# ------------------------------------------------------- behaviours from TLC
def beh_to_script(b, nh):
    """TLC behaviour (hist records + final contents) -> commands, expectations"""
    script, expect = [], []
    for rec in b["hist"]:
        script.append(cmd(rec["op"], rec["args"], rec["ib"], rec["ib2"]))
        expect.append(rec)
    for h in range(nh):
        script.append(cmd("audit", [h]))
        fin = b["fin"][h]
        if fin == [-1]:
            expect.append({"res": "none", "n": -1, "b": [], "nx": True, "bx": True, "u": False})
        else:
            expect.append({"res": "ok", "n": len(fin), "b": fin, "nx": True, "bx": True, "u": False})
    return script, expect


def compare(expect, results):
    """-> index of the first result that differs from the prediction, or None.
    Stops (None) where the real code took the other admissible branch of a
    call whose arguments have no byte-string meaning."""
    for i, (x, r) in enumerate(zip(expect, results)):
        if r["r"] == "crash":
            return i
        if x["res"] == "any":
            continue
        if x["u"] and r["r"] != x["res"]:
            if r["r"] in ("err", "okfree"):
                return None      # other admissible branch: the model went elsewhere
            return i
        if r["r"] != x["res"]:
            return i
        if x["nx"] and r["n"] != x["n"]:
            return i
        if x["bx"] and r["b"] != x["b"]:
            return i
    return None


# ------------------------------------------------------------ key / slicing
def handles_of(c):
    op, a = c["op"], c["a"]
    if op in ("dup", "splice", "split", "copy"):
        return [a[0], a[1]]
    if op in ("append", "equal"):
        return [a[0], a[1]]
    if op in ("insert", "compare"):
        return [a[0], a[2]]
    return [a[0]]


def slice_script(script, upto):
    """backward slice: the commands up to index `upto` (inclusive) that can
    influence the handles of command `upto`."""
    cone = set(handles_of(script[upto]))
    keep = [upto]
    for i in range(upto - 1, -1, -1):
        hs = set(handles_of(script[i]))
        if hs & cone:
            cone |= hs
            keep.append(i)
    keep.reverse()
    return [script[i] for i in keep]


def symptom_key(script, events, line):
    """stable-ish key for an unexplained rejection: culprit function and
    symptom.  line = 1-based index in events (events[0] is Reset)."""
    idx = line - 2          # index in script
    if idx < 0 or idx >= len(script):
        return "unknown;line%d" % line
    c = script[idx]
    ev = events[line - 1] if line - 1 < len(events) else {}
    if ev.get("e") == "crash":
        return "%s;sanitizer" % CFUNC.get(c["op"], c["op"])
    if c["op"] in ("wmap", "poke"):
        return "ubuf_block_write;%s-contrary-to-owners" % ev.get("r", "?")
    if c["op"] in MUTATORS:
        if ev.get("r") == "okfree":
            return "%s;out-of-range accepted, result inconsistent" % CFUNC[c["op"]]
        return "%s;result %s" % (CFUNC[c["op"]], ev.get("r", "?"))
    # an observer disagrees: blame the last structural call on one of its handles
    cone = set(handles_of(c))
    for i in range(idx - 1, -1, -1):
        p = script[i]
        if p["op"] in MUTATORS and p["op"] not in ("wmap",) and set(handles_of(p)) & cone:
            pe = events[i + 1]
            if pe.get("r") in ("err", "busy"):
                return "%s;changed-after-error" % CFUNC[p["op"]]
            what = "read" if c["op"] != "size" else "size"
            return "%s;%s-after-%s" % (CFUNC[p["op"]], what, p["op"])
    return "%s;result" % CFUNC.get(c["op"], c["op"])


# --------------------------------------------------------------- quarantine
# A defect that has been reproduced and reported (by its key) is kept from
# polluting the rest of the exploration: the trigger is neutralised in the
# executions so that everything else is still checked.
def quarantine(keys, script, results):
    """-> (script, results) truncated / filtered according to reported keys"""
    s2, r2 = [], []
    for c, r in zip(script, results):
        if "ubuf_block_splice;out-of-range accepted, result inconsistent" in keys \
                and c["op"] == "splice" and r["r"] == "okfree":
            continue                      # no effect on the model state: skip the line
        s2.append(c)
        r2.append(r)
        if c["op"] == "delete" and r["r"] == "err" and "ubuf_block_delete;changed-after-error" in keys:
            break
        if c["op"] == "resize" and r["r"] == "err" and "ubuf_block_resize;changed-after-error" in keys:
            break
        if c["op"] == "prepend" and r["r"] == "ok" and c["a"][1] > 0 \
                and "ubuf_block_prepend;read-after-prepend" in keys:
            break
    return s2, r2


# -------------------------------------------------------------------- judge
class Judge:
    """collects executions, validates them with BlockBuf_Trace, reproduces and
    reports rejections."""

    def __init__(self, ctx, harness, trace_cfg="BlockBuf_Trace.cfg"):
        self.ctx = ctx
        self.h = harness
        self.trace_cfg = trace_cfg
        self.reported = set()
        self.pool = []            # (cfg, script, results, source)
        self.direct_mismatch = []

    def validate(self, items, tag):
        hists = [to_events(cfg, s, r) for cfg, s, r, _ in items]
        if not hists:
            return []
        return self.ctx.validate_histories("BlockBuf_Trace", self.trace_cfg, hists, tag=tag,
                                           max_reject=6, timeout=1500)

    def still_fails(self, cfg, script):
        res = self.h.run_one(cfg, script)
        ev = to_events(cfg, script, res)
        rej = self.ctx.validate_histories("BlockBuf_Trace", self.trace_cfg, [ev], tag="re")
        self.ctx.traces -= 0 if rej else 1        # re-runs are not new evidence
        return (rej[0][1] if rej else None), res, ev

    def minimise(self, cfg, script, line, budget_s=40):
        """script rejected at events line `line` -> smaller script that is still
        rejected (slice, then greedy removal while time allows)."""
        t0 = time.time()
        upto = min(line - 2, len(script) - 1)
        best = script[:upto + 1]
        cand = slice_script(script, upto)
        if len(cand) < len(best):
            l2, _, _ = self.still_fails(cfg, cand)
            if l2 is not None:
                best = cand[:l2 - 1]
        i = len(best) - 2
        while i >= 0 and time.time() - t0 < budget_s and len(best) > 2:
            cand = best[:i] + best[i + 1:]
            try:
                l2, _, _ = self.still_fails(cfg, cand)
            except vlib.ToolError:
                l2 = None        # the shortened script is malformed (uses a missing handle)
            if l2 is not None:
                best = cand[:l2 - 1]
                i = min(i, len(best) - 1)
            i -= 1
        return best

    def report(self, cfg, script, line, source, inv):
        """an execution rejected by the trace specification at `line`"""
        l2, res, ev = self.still_fails(cfg, script)
        if l2 is None:
            raise vlib.ToolError("rejected execution did not reproduce (flaky harness?) cfg=%s" % cfg["name"])
        small = self.minimise(cfg, script, l2)
        l3, res3, ev3 = self.still_fails(cfg, small)
        if l3 is None:
            small, l3, res3, ev3 = script, l2, res, ev
        key = symptom_key(small, ev3, l3)
        txt = [cmd_text(c) for c in small[:l3 - 1]]
        got = ev3[l3 - 1] if l3 - 1 < len(ev3) else {}
        what = ("%s: real ubuf_block_mem (%s) diverges from the byte-string/sharing specification at "
                "'%s' -> %s; script: %s" %
                (key, cfg["name"], txt[-1] if txt else "?",
                 json.dumps({k: got.get(k) for k in ("r", "n", "b", "ps", "pe", "pb")}), "; ".join(txt)))
        self.reported.add(key)
        self.ctx.violation(key, what, {"harness_args": cfg_argv(cfg), "script": txt, "trace": ev3[:l3],
                                       "source": source, "violated": inv})
        return key

    def judge(self, items, tag, max_rounds=8):
        """validate all executions; every rejection is reproduced, minimised,
        reported, its trigger quarantined and the rest re-validated."""
        items = list(items)
        for rnd in range(max_rounds):
            rej = self.validate(items, "%s%d" % (tag, rnd))
            if not rej:
                return
            done = set()
            for idx, line, inv in rej:
                cfg, script, results, source = items[idx]
                self.report(cfg, script, line, source, inv)
                done.add(idx)
            # quarantine the reported triggers and look at what is left
            nxt = []
            for i, (cfg, script, results, source) in enumerate(items):
                s2, r2 = quarantine(self.reported, script, results)
                if i in done and len(s2) == len(script):
                    continue          # reported, no quarantine rule applies: drop it
                nxt.append((cfg, s2, r2, source))
            items = nxt
        self.ctx.notes.append("more rejected executions than rounds of reporting: remaining ones not analysed")
