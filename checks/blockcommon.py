"""Shared machinery of the block-buffer checks C03 (byte-string semantics) and
C02 (copy-on-write isolation; block part).

spec -> code : behaviours of spec/MCBlockBuf.tla / spec/MCBlockSeg.tla (calls +
               the results the specification predicts) are replayed on
               harness/replay_block.c (real ubuf_block / uref_block API on
               ubuf_block_mem) and compared result by result;
code -> spec : every execution (replayed behaviours, counterexamples of the
               negative model variants, seeded random scripts) is turned into an
               ndjson trace and validated by spec/BlockBuf_Trace.tla.
Python holds no oracle: it formats commands, parses result lines, compares them
with what TLC predicted (equality, honouring the "not specified" flags the
specification itself put in the behaviour) and asks TLC to judge every
recorded execution.  The random generator keeps a rough size estimate per
handle only to choose arguments near the interesting boundaries; commands
that turn out to be malformed (dead handle) are answered "bad" by the harness
and dropped from the trace.
"""
import json, os, re, threading, time
import vlib

FILL = 14
SRCS = ["replay_block.c", "lib/upipe/ubuf_block_mem.c", "lib/upipe/ubuf_mem_common.c",
        "lib/upipe/umem_alloc.c", "lib/upipe/umem_pool.c", "lib/upipe/uref_std.c",
        "lib/upipe/udict_inline.c"]
TRACE = ("BlockBuf_Trace", "BlockBuf_Trace.cfg")

# manager configurations (argv of the harness).  Behaviours of a model with
# Pre = pre can be compared result by result with a configuration whose
# align is 0 (the room in front of the data is exactly the manager's prepend).
CONFIGS = [
    {"name": "p0_pre2", "args": {"pool": 0, "pre": 2, "app": 0, "align": 0}},
    {"name": "p4_pre2_app3_upool", "args": {"pool": 4, "pre": 2, "app": 3, "align": 0, "umem": "pool"}},
    {"name": "p1_pre0", "args": {"pool": 1, "pre": 0, "app": 0, "align": 0}},
    {"name": "p2_pre2_align16", "args": {"pool": 2, "pre": 2, "app": 15, "align": 16, "aoff": 0}},
    {"name": "p0_pre1_align4_uref", "args": {"pool": 0, "pre": 1, "app": 1, "align": 4, "aoff": -1, "api": "uref"}},
    {"name": "p3_pre2_uref", "args": {"pool": 3, "pre": 2, "app": 0, "align": 0, "api": "uref"}},
    {"name": "p2_pre1", "args": {"pool": 2, "pre": 1, "app": 2, "align": 0}},
]
CFG = {c["name"]: c for c in CONFIGS}

MUTATORS = {"alloc", "dup", "splice", "split", "copy", "merge", "append", "insert", "delete",
            "truncate", "resize", "prepend", "wmap", "poke", "free"}
OBSERVERS = {"size", "read", "rd1", "peek", "extract", "iovec", "slin", "scan", "find",
             "compare", "equal", "match", "audit"}
CFUNC = {"alloc": "ubuf_block_alloc", "dup": "ubuf_dup", "splice": "ubuf_block_splice",
         "split": "ubuf_block_split", "copy": "ubuf_block_copy", "merge": "ubuf_block_merge",
         "append": "ubuf_block_append", "insert": "ubuf_block_insert", "delete": "ubuf_block_delete",
         "truncate": "ubuf_block_truncate", "resize": "ubuf_block_resize", "prepend": "ubuf_block_prepend",
         "wmap": "ubuf_block_write", "poke": "ubuf_block_write", "free": "ubuf_free",
         "size": "ubuf_block_size", "read": "ubuf_block_read", "rd1": "ubuf_block_read",
         "peek": "ubuf_block_peek", "extract": "ubuf_block_extract", "iovec": "ubuf_block_iovec_read",
         "slin": "ubuf_block_size_linear", "scan": "ubuf_block_scan", "find": "ubuf_block_find",
         "compare": "ubuf_block_compare", "equal": "ubuf_block_equal", "match": "ubuf_block_match",
         "audit": "ubuf_block_extract"}
NORES = {"r": "crash", "n": -1, "b": [], "ps": [], "pe": [], "pb": []}


# ------------------------------------------------------------------ commands
def enc(bs):
    return "b" + "".join("0123456789abcdef"[x] for x in bs)


def dec(tok):
    if not tok.startswith("b"):
        raise vlib.ToolError("replay_block: bad octet token %r" % tok)
    return [int(ch, 16) if ch != "z" else 255 for ch in tok[1:]]


def cmd(op, a, ib=(), ib2=()):
    return {"op": op, "a": list(a), "ib": list(ib), "ib2": list(ib2)}


FAULTABLE = ("dup", "splice", "split", "copy", "merge", "insert", "delete", "resize", "prepend")


def cmd_text(c):
    if c.get("fault"):
        return "F%d %s" % (c["fault"], cmd_text({k: v for k, v in c.items() if k != "fault"}))
    op, a = c["op"], c["a"]
    H = lambda i: "h%d" % a[i]
    if op == "alloc":
        return "alloc %s %d %s" % (H(0), a[1], enc(c["ib"]))
    if op == "dup":
        return "dup %s %s" % (H(0), H(1))
    if op in ("splice", "copy"):
        return "%s %s %s %d %d" % (op, H(0), H(1), a[2], a[3])
    if op == "split":
        return "split %s %s %d" % (H(0), H(1), a[2])
    if op in ("merge", "delete", "resize", "read", "rd1", "peek", "extract", "iovec"):
        return "%s %s %d %d" % (op, H(0), a[1], a[2])
    if op in ("append", "equal"):
        return "%s %s %s" % (op, H(0), H(1))
    if op in ("insert", "compare"):
        return "%s %s %d %s" % (op, H(0), a[1], H(2))
    if op in ("truncate", "prepend", "wmap", "slin"):
        return "%s %s %d" % (op, H(0), a[1])
    if op in ("poke", "scan"):
        return "%s %s %d %d" % (op, H(0), a[1], a[2])
    if op in ("free", "size", "audit"):
        return "%s %s" % (op, H(0))
    if op == "find":
        return "find %s %d %s" % (H(0), a[1], " ".join(str(x) for x in c["ib"]))
    if op == "match":
        return "match %s %s %s" % (H(0), enc(c["ib"]), enc(c["ib2"]))
    raise vlib.ToolError("unknown op " + op)


def text_cmd(line):
    """inverse of cmd_text (replay files store the text form)"""
    t = line.split()
    if len(t[0]) == 2 and t[0][0] == "F" and t[0][1].isdigit():
        c = text_cmd(" ".join(t[1:]))
        c["fault"] = int(t[0][1])
        return c
    op = t[0]
    hn = lambda s: int(s[1:])
    if op == "alloc":
        return cmd(op, [hn(t[1]), int(t[2])], dec(t[3]))
    if op == "dup":
        return cmd(op, [hn(t[1]), hn(t[2])])
    if op in ("splice", "copy"):
        return cmd(op, [hn(t[1]), hn(t[2]), int(t[3]), int(t[4])])
    if op == "split":
        return cmd(op, [hn(t[1]), hn(t[2]), int(t[3])])
    if op in ("merge", "delete", "resize", "read", "rd1", "peek", "extract", "iovec", "poke", "scan"):
        return cmd(op, [hn(t[1]), int(t[2]), int(t[3])])
    if op in ("append", "equal"):
        return cmd(op, [hn(t[1]), hn(t[2])])
    if op in ("insert", "compare"):
        return cmd(op, [hn(t[1]), int(t[2]), hn(t[3])])
    if op in ("truncate", "prepend", "wmap", "slin"):
        return cmd(op, [hn(t[1]), int(t[2])])
    if op in ("free", "size", "audit"):
        return cmd(op, [hn(t[1])])
    if op == "find":
        return cmd(op, [hn(t[1]), int(t[2])], [int(x) for x in t[3:]])
    if op == "match":
        return cmd(op, [hn(t[1])], dec(t[2]), dec(t[3]))
    raise vlib.ToolError("unknown command line " + line)


FERR = [0]      # commands whose first attempt (an allocation refused) reported an error and were run again


def parse_result(c, line):
    """result line of the harness -> fields r, n, b, ps, pe, pb"""
    op = c["op"]
    t = line.split()
    ferr = bool(t) and t[0] == "ferr"
    if ferr:
        t = t[1:]
        FERR[0] += 1
    res = {"r": t[0] if t else "crash", "n": -1, "b": [], "ps": [], "pe": [], "pb": []}
    if not t:
        raise vlib.ToolError("replay_block: empty result for %r" % cmd_text(c))
    if t[0] == "bad":
        return res
    try:
        if t[0] == "okfree":
            for i in range(1, len(t), 2):
                res["ps"].append(-1 if t[i] == "big" else int(t[i]))
                if t[i + 1] == "err":
                    res["pe"].append(0)
                    res["pb"].append([])
                else:
                    res["pe"].append(1)
                    res["pb"].append(dec(t[i + 1]))
        elif op in ("alloc", "copy", "merge", "size", "slin") and t[0] == "ok":
            res["n"] = int(t[1])
        elif op in ("scan", "find"):
            res["n"] = int(t[1])
        elif op in ("read", "iovec") and t[0] == "ok":
            res["b"] = dec(t[1])
            res["n"] = int(t[2])
        elif op in ("rd1", "peek", "extract") and t[0] == "ok":
            res["b"] = dec(t[1])
        elif op == "audit" and t[0] == "ok":
            res["n"] = -1 if t[1] == "big" else int(t[1])
            if t[2] == "err":
                res["r"] = "auditerr"
            else:
                res["b"] = dec(t[2])
    except (IndexError, ValueError):
        raise vlib.ToolError("replay_block: cannot parse %r -> %r" % (cmd_text(c), line))
    return res


def cfg_argv(cfg):
    return ["%s=%s" % (k, v) for k, v in cfg["args"].items()] + ["fill=%d" % FILL]


def reset_event(cfg):
    return {"e": "Reset", "pre": cfg["args"].get("pre", 0), "align": cfg["args"].get("align", 0),
            "cfg": cfg["name"]}


class Exe:
    """one execution of the real code: manager configuration, commands, and
    (after the run) one result per command"""
    __slots__ = ("cfg", "script", "results", "source", "expect", "cut")

    def __init__(self, cfg, script, source, expect=None):
        self.cfg = cfg
        self.script = script
        self.source = source
        self.expect = expect
        self.results = None
        self.cut = None           # quarantine: number of effective commands kept

    def effective(self):
        """(command, result) pairs that are part of the trace: malformed
        commands (answered "bad": nothing was called) are left out"""
        out = [(c, r) for c, r in zip(self.script, self.results) if r["r"] != "bad"]
        return out if self.cut is None else out[:self.cut]

    def events(self):
        ev = [reset_event(self.cfg)]
        for c, r in self.effective():
            if r["r"] in ("crash", "hang"):
                e = {"e": r["r"], "a": c["a"], "ib": [], "ib2": [], "during": cmd_text(c)}
                e.update(NORES)
                e["r"] = r["r"]
            else:
                e = {"e": c["op"], "a": c["a"], "ib": c["ib"], "ib2": c["ib2"]}
                e.update(r)
            ev.append(e)
        return ev

    def text(self):
        return [cmd_text(c) for c, _ in self.effective()]


# ------------------------------------------------------------------- harness
class Harness:
    def __init__(self, ctx, san="asan"):
        self.ctx = ctx
        self.bin = ctx.cc("replay_block", SRCS, san=san, flags=["-Wl,--wrap=malloc"])
        self.env = {"ASAN_OPTIONS": "detect_leaks=0:abort_on_error=0:exitcode=66",
                    "UBSAN_OPTIONS": "print_stacktrace=1:halt_on_error=1",
                    "REPLAY_ALARM_S": "4" if ctx.quick else "10"}
        self.commands_run = 0
        self.crashes = []
        self.not_executed = 0
        self.max_deaths = 3       # per batch: a broken tree must give a verdict, not a crawl
        self.lock = threading.Lock()

    def _run_chunk(self, cfg, scripts):
        """scripts: list of command lists (one manager configuration).  Returns,
        per script, the list of result dicts (the last one may be a crash if
        the process died there; the commands after it are not run)."""
        out = [None] * len(scripts)
        todo = list(range(len(scripts)))
        deaths = 0
        while todo:
            if deaths >= self.max_deaths:
                break                 # the rest is not executed (and not judged)
            lines = []
            for k in todo:
                lines.append("reset")
                lines += [cmd_text(c) for c in scripts[k]]
            r = self.ctx.run([self.bin] + cfg_argv(cfg), input="\n".join(lines) + "\n",
                             timeout=900, env=self.env)
            if r.returncode == 124:
                raise vlib.ToolError("replay_block timed out (%s)" % cfg["name"])
            got = r.stdout.splitlines()
            pos = 0
            died_at = None
            ncmd = 0
            for idx, k in enumerate(todo):
                if pos >= len(got) or got[pos] != "reset":
                    died_at = idx
                    break
                pos += 1
                res = []
                for c in scripts[k]:
                    if pos >= len(got) or got[pos] in ("end", "reset"):
                        break
                    res.append(parse_result(c, got[pos]))
                    pos += 1
                ncmd += len(res)
                if len(res) < len(scripts[k]):
                    # the process died inside this execution
                    if r.returncode == 0:
                        raise vlib.ToolError("replay_block: short output without a crash")
                    dead = dict(NORES)
                    dead["r"] = "hang" if r.returncode == 5 else "crash"
                    res.append(dead)
                    deaths += 1
                    with self.lock:
                        self.crashes.append({"cfg": cfg["name"], "kind": dead["r"], "rc": r.returncode,
                                             "during": cmd_text(scripts[k][len(res) - 1]),
                                             "stderr": (r.stderr or "")[-1200:]})
                    out[k] = res
                    died_at = idx + 1
                    break
                out[k] = res
            with self.lock:
                self.commands_run += ncmd
            if died_at is None:
                if r.returncode != 0:
                    # every command was answered and the process died while tearing down (releasing what the
                    # scripts left, the managers, the allocator): the script that causes it is searched by
                    # bisection and gets a crash in place of its last result
                    k = self._teardown_culprit(cfg, scripts, todo)
                    if k is None:
                        raise vlib.ToolError("replay_block failed rc=%d after all commands: %s"
                                             % (r.returncode, (r.stderr or "")[-1500:]))
                    dead = dict(NORES)
                    dead["r"] = "crash"
                    out[k] = out[k][:-1] + [dead]
                    with self.lock:
                        self.crashes.append({"cfg": cfg["name"], "kind": "crash", "rc": r.returncode,
                                             "during": "tear-down after " + cmd_text(scripts[k][-1]),
                                             "stderr": (r.stderr or "")[-1200:]})
                break
            if died_at == 0:
                raise vlib.ToolError("replay_block died at start rc=%d: %s" % (r.returncode, (r.stderr or "")[-1500:]))
            todo = todo[died_at:]
        return out

    def _teardown_culprit(self, cfg, scripts, todo):
        """The one script of todo after which the process dies at exit (None if no single script does)."""
        def dies(part):
            lines = []
            for k in part:
                lines.append("reset")
                lines += [cmd_text(c) for c in scripts[k]]
            r = self.ctx.run([self.bin] + cfg_argv(cfg), input="\n".join(lines) + "\n", timeout=900, env=self.env)
            return r.returncode not in (0, 124)
        part = [k for k in todo if scripts[k]]
        while len(part) > 1:
            half = part[:len(part) // 2]
            if dies(half):
                part = half
            elif dies(part[len(half):]):
                part = part[len(half):]
            else:
                return None
        return part[0] if part and dies(part) else None

    def execute(self, exes, jobs=4):
        """run the executions (grouped by configuration, in parallel chunks)"""
        groups = {}
        for e in exes:
            groups.setdefault(e.cfg["name"], []).append(e)
        work = []
        for name, lst in groups.items():
            step = max(1, min(4000, (len(lst) + jobs - 1) // jobs))
            for b in range(0, len(lst), step):
                work.append((CFG[name] if name in CFG else lst[0].cfg, lst[b:b + step]))
        err = []
        sem = threading.Semaphore(jobs)

        def one(cfg, part):
            with sem:
                try:
                    res = self._run_chunk(cfg, [e.script for e in part])
                    for e, r in zip(part, res):
                        e.results = r
                except Exception as ex:
                    err.append(ex)
        ths = [threading.Thread(target=one, args=w) for w in work]
        for t in ths:
            t.start()
        for t in ths:
            t.join()
        if err:
            raise err[0] if isinstance(err[0], vlib.ToolError) else vlib.ToolError("harness driver: %r" % err[0])
        done = [e for e in exes if e.results is not None]
        with self.lock:
            self.not_executed += len(exes) - len(done)
        return done


# ------------------------------------------------------- behaviours from TLC
FIELDS = ("op", "args", "ib", "ib2", "res", "n", "b", "nx", "bx", "u")


def rec_of(x):
    """behaviour step as emitted by TLC (array, see MCBlockBuf!Emit) -> dict"""
    if isinstance(x, dict):
        return x
    return dict(zip(FIELDS, x))


def beh_to_exe(b, nh, cfg, source):
    """TLC behaviour (hist records + final contents) -> execution + expectations"""
    script, expect = [], []
    for x in b["hist"]:
        rec = rec_of(x)
        script.append(cmd(rec["op"], rec["args"], rec["ib"], rec["ib2"]))
        expect.append(rec)
    for h in range(nh):
        script.append(cmd("audit", [h]))
        fin = b["fin"][h]
        if fin == [-1]:
            expect.append({"res": "none", "n": -1, "b": [], "nx": True, "bx": True, "u": False})
        elif fin == [-2]:
            expect.append({"res": "any", "n": -1, "b": [], "nx": False, "bx": False, "u": True})
        else:
            expect.append({"res": "ok", "n": len(fin), "b": fin, "nx": True, "bx": True, "u": False})
    return Exe(cfg, script, source, expect)


def compare(e):
    """-> index of the first result that differs from the prediction, or None.
    Stops (None) where the real code took the other admissible branch of a
    call whose arguments have no byte-string meaning."""
    for i, (x, r) in enumerate(zip(e.expect, e.results)):
        if r["r"] in ("crash", "hang", "bad"):
            return i
        if x["res"] == "any":
            continue
        if x["u"] and r["r"] != x["res"]:
            if r["r"] in ("err", "okfree", "busy"):
                return None      # other admissible branch: the model went elsewhere
            return i
        if r["r"] != x["res"]:
            return i
        if x["nx"] and r["n"] != x["n"]:
            return i
        if x["bx"] and r["b"] != x["b"]:
            return i
    return None


# -------------------------------------------------------------- random scripts
class Gen:
    """seeded generator of command scripts.  mode "c03": every call, offsets
    and sizes inside, at the boundaries and outside the block; mode "c02":
    the sharing calls of C02 with arguments inside the block, write mappings
    and frequent audits of every handle."""

    def __init__(self, rng, mode, nh, maxlen, pre):
        self.rng = rng
        self.mode = mode
        self.nh = nh
        self.maxlen = maxlen
        self.pre = pre
        self.sz = {}          # handle -> estimated size (argument choice only)

    def off(self, n, inside=False):
        r = self.rng
        if n > 0 and (inside or r.chance(4, 5)):
            o = r.below(n)
            return o - n if r.chance(1, 4) else o
        return r.choice([n, n + 1, -n - 1, -n - 2, n + 3, 0, -1])

    def range_(self, n, inside=False):
        r = self.rng
        o = self.off(n, inside)
        oo = o + n if o < 0 else o
        left = n - oo if 0 <= oo <= n else 0
        c = r.below(10)
        if c < 2:
            s = -1
        elif c < 8 or inside:
            s = r.below(left + 1) if left >= 0 else 0
            if c < 4 and left > 0:
                s = min(left, 1 + r.below(3))
        else:
            s = left + 1 + r.below(2)
        return o, s

    def data(self, n):
        return [self.rng.below(4) if self.rng.chance(2, 3) else self.rng.below(14) for _ in range(n)]

    def script(self, length):
        r = self.rng
        c02 = self.mode == "c02"
        out = []
        self.sz = {}
        sz = self.sz
        live = lambda: sorted(sz)
        free = lambda: [h for h in range(self.nh) if h not in sz]
        if c02:
            ops = (["dup"] * 5 + ["splice"] * 5 + ["split"] * 3 + ["insert"] * 4 + ["append"] * 3 + ["delete"] * 4 +
                   ["resize"] * 3 + ["truncate"] * 2 + ["poke"] * 12 + ["wmap"] * 3 + ["free"] * 4 +
                   ["alloc"] * 4 + ["merge"] * 1 + ["copy"] * 1 + ["auditall"] * 8 + ["extract"] * 3)
        else:
            ops = (["alloc"] * 5 + ["dup"] * 3 + ["splice"] * 4 + ["split"] * 3 + ["copy"] * 2 + ["merge"] * 2 +
                   ["append"] * 4 + ["insert"] * 5 + ["delete"] * 5 + ["truncate"] * 3 + ["resize"] * 4 +
                   ["prepend"] * 4 + ["poke"] * 3 + ["wmap"] * 1 + ["free"] * 3 +
                   ["size"] * 2 + ["read"] * 3 + ["rd1"] * 8 + ["peek"] * 4 + ["extract"] * 4 + ["iovec"] * 3 +
                   ["slin"] * 3 + ["scan"] * 3 + ["find"] * 3 + ["compare"] * 3 + ["equal"] * 2 + ["match"] * 2)
        # half of the scripts concentrate on ONE handle and on the calls that rebuild its segment chain
        # (grow - cut - grow again - read): defects of the cached head / tail pointers need such a sequence
        focus = r.chance(1, 2)
        hfocus = None
        if focus and not c02:
            ops = (["alloc"] * 7 + ["append"] * 7 + ["insert"] * 6 + ["truncate"] * 5 + ["delete"] * 5 + ["split"] * 4 +
                   ["resize"] * 4 + ["prepend"] * 2 + ["splice"] * 2 + ["dup"] * 1 + ["free"] * 1 + ["merge"] * 1 +
                   ["rd1"] * 7 + ["extract"] * 4 + ["size"] * 1 + ["iovec"] * 1 + ["slin"] * 1 + ["scan"] * 1)
        elif focus:
            ops = (["alloc"] * 6 + ["append"] * 6 + ["insert"] * 6 + ["truncate"] * 4 + ["delete"] * 5 + ["split"] * 4 +
                   ["resize"] * 4 + ["dup"] * 4 + ["splice"] * 4 + ["poke"] * 10 + ["free"] * 2 + ["auditall"] * 6 +
                   ["extract"] * 3)
        while len(out) < length:
            lv = live()
            fr = free()
            op = r.choice(ops)
            if not lv or (len(lv) < 2 and r.chance(1, 3)):
                op = "alloc"
            if op in ("alloc", "dup", "splice", "split", "copy") and not fr:
                op = "free"
            h = r.choice(lv) if lv else 0
            if focus and lv:
                if hfocus not in sz:
                    hfocus = r.choice(lv)
                if r.chance(3, 4):
                    h = hfocus
                if op == "free" and h == hfocus and r.chance(3, 4):
                    continue
            n = sz.get(h, 0)
            ins = c02
            if op == "alloc":
                d = r.choice(fr)
                k = r.choice([0, 1, 2, 3, 4, 5, 6, 8, 12]) if not c02 else r.choice([2, 3, 4, 6, 8])
                out.append(cmd("alloc", [d, k], self.data(k)))
                sz[d] = k
            elif op == "dup":
                d = r.choice(fr)
                out.append(cmd("dup", [d, h]))
                sz[d] = n
            elif op == "splice":
                d = r.choice(fr)
                o, s = self.range_(n, ins)
                out.append(cmd("splice", [d, h, o, s]))
                oo = o + n if o < 0 else o
                if 0 <= oo < n and (s == -1 or oo + s <= n):
                    sz[d] = n - oo if s == -1 else s
            elif op == "split":
                d = r.choice(fr)
                o = self.off(n, ins)
                out.append(cmd("split", [d, h, o]))
                oo = o + n if o < 0 else o
                if 0 <= oo < n:
                    sz[h], sz[d] = oo, n - oo
            elif op in ("copy", "merge"):
                if r.chance(1, 3) and not c02:
                    sk = -r.below(3) - 1
                else:
                    sk = r.below(n + 1) if n or not c02 else 0
                s = -1 if r.chance(1, 2) else r.below(n + 3)
                if c02:
                    s = -1 if r.chance(1, 2) else max(1, r.below(n - sk + 1))
                ns = n - sk if s == -1 else s
                okd = sk <= n and ns > max(0, -sk)
                if op == "copy":
                    d = r.choice(fr)
                    out.append(cmd("copy", [d, h, sk, s]))
                    if okd:
                        sz[d] = ns
                else:
                    out.append(cmd("merge", [h, sk, s]))
                    if okd:
                        sz[h] = ns
            elif op in ("append", "insert"):
                others = [g for g in lv if g != h]
                if not others:
                    continue
                g = r.choice(others)
                if n + sz[g] > self.maxlen:
                    continue
                if op == "append":
                    out.append(cmd("append", [h, g]))
                    sz[h] = n + sz.pop(g)
                else:
                    o = self.off(n, ins)
                    out.append(cmd("insert", [h, o, g]))
                    oo = o + n if o < 0 else o
                    if 0 <= oo < n:
                        sz[h] = n + sz.pop(g)
            elif op == "delete":
                o, s = self.range_(n, ins)
                out.append(cmd("delete", [h, o, s]))
                oo = o + n if o < 0 else o
                if 0 <= oo < n and (s == -1 or oo + s <= n):
                    sz[h] = oo if s == -1 else n - s
            elif op == "truncate":
                t = r.below(n + 1) if (ins or r.chance(5, 6)) else n + 1 + r.below(2)
                out.append(cmd("truncate", [h, t]))
                if t <= n:
                    sz[h] = t
            elif op == "resize":
                if n and (ins or r.chance(4, 5)):
                    sk = r.below(n + 1)
                    if r.chance(1, 4):
                        sk -= n
                else:
                    sk = r.choice([n + 1, n + 2, -n - 1, 0, n])
                ss = sk + n if sk < 0 else sk
                left = n - ss if 0 <= ss <= n else 0
                s = -1 if r.chance(1, 3) else (r.below(left + 1) if (ins or r.chance(5, 6)) else left + 1)
                out.append(cmd("resize", [h, sk, s]))
                if 0 <= ss <= n and (s == -1 or ss + s <= n):
                    sz[h] = n - ss if s == -1 else s
            elif op == "prepend":
                k = r.choice([0, 1, 1, 2, 2, 3, self.pre, self.pre + 1])
                out.append(cmd("prepend", [h, k]))
                if k <= self.pre:
                    sz[h] = n + k          # estimate only (the room may have been used already)
            elif op in ("wmap", "poke"):
                o = self.off(n, ins and r.chance(19, 20))
                out.append(cmd("wmap", [h, o]) if op == "wmap" else cmd("poke", [h, o, r.below(16)]))
            elif op == "free":
                if len(lv) <= 1 and r.chance(2, 3):
                    continue
                out.append(cmd("free", [h]))
                sz.pop(h, None)
            elif op == "size":
                out.append(cmd("size", [h]))
            elif op in ("read", "rd1", "peek", "extract", "iovec"):
                o, s = self.range_(n, ins)
                if op == "rd1" and r.chance(1, 2):
                    s = 1
                out.append(cmd(op, [h, o, s]))
            elif op == "slin":
                out.append(cmd("slin", [h, self.off(n)]))
            elif op == "scan":
                out.append(cmd("scan", [h, r.below(n + 2), r.below(4)]))
            elif op == "find":
                k = r.choice([2, 2, 3, 4])
                if n >= k + 2 and r.chance(1, 2):
                    # an occurrence that starts INSIDE a partial one: a a .. a b searched in a a a .. a b
                    a = r.below(4)
                    b = (a + 1 + r.below(3)) % 4
                    o = r.below(n - k)
                    for j in range(k):
                        out.append(cmd("poke", [h, o + j, a]))
                    out.append(cmd("poke", [h, o + k, b]))
                    out.append(cmd("find", [h, r.below(o + 1)], [a] * (k - 1) + [b]))
                else:
                    out.append(cmd("find", [h, r.below(n + 2)], [r.below(4) for _ in range(k)]))
            elif op == "compare":
                g = r.choice(lv)
                out.append(cmd("compare", [h, r.below(n + 2), g]))
            elif op == "equal":
                out.append(cmd("equal", [h, r.choice(lv)]))
            elif op == "match":
                k = r.below(4)
                out.append(cmd("match", [h], [r.below(4) for _ in range(k)], [r.choice([15, 15, 3, 1, 0]) for _ in range(k)]))
            elif op == "auditall":
                for g in lv:
                    out.append(cmd("audit", [g]))
        # refused allocations: one structural call in eight runs with the k-th allocation of the library
        # refused (the harness runs it again if it reported an error: nothing may have changed)
        for c in out:
            if c["op"] in FAULTABLE and r.chance(1, 8):
                c["fault"] = 1 + r.below(3)
        for g in range(self.nh):
            out.append(cmd("audit", [g]))
        return out


# ------------------------------------------------------------ slicing / keys
def handles_of(c):
    op, a = c["op"], c["a"]
    if op in ("dup", "splice", "split", "copy", "append", "equal"):
        return [a[0], a[1]]
    if op in ("insert", "compare"):
        return [a[0], a[2]]
    return [a[0]]


def slice_script(script, upto):
    """backward slice: the commands up to index `upto` (inclusive) that can
    influence the handles of command `upto`."""
    cone = set(handles_of(script[upto]))
    keep = [upto]
    for i in range(upto - 1, -1, -1):
        hs = set(handles_of(script[i]))
        if hs & cone:
            if script[i]["op"] in MUTATORS:
                cone |= hs
            keep.append(i)
    keep.reverse()
    return [script[i] for i in keep]


def make_key(culprit, cres, own_line, probe_op, probe_res):
    """stable key of a defect: the function whose call left the block wrong
    and the class of the symptom - no arguments, no data"""
    f = CFUNC.get(culprit["op"], culprit["op"])
    if own_line:
        if cres["r"] == "hang":
            return "%s;does-not-return" % f
        if cres["r"] == "crash":
            return "%s;sanitizer-or-crash" % f
        if cres["r"] == "okfree":
            return "%s;out-of-range-accepted;inconsistent-result" % f
        if culprit["op"] in ("wmap", "poke"):
            return "%s;%s-contrary-to-owners" % (f, cres["r"])
        if culprit["op"] in OBSERVERS:
            return "%s;wrong-result" % f
        return "%s;unexpected-result-%s" % (f, cres["r"])
    if probe_res in ("crash", "hang"):
        return "%s;%s-afterwards" % (f, probe_res)
    what = "size" if probe_op == "size" else "content"
    if cres["r"] in ("err", "busy"):
        return "%s;reported-error-but-changed" % f
    if culprit["op"] in ("wmap", "poke"):
        return "%s;write-visible-elsewhere-or-lost" % f
    return "%s;wrong-%s-afterwards" % (f, what)


# -------------------------------------------------------------------- judge
def has_negative_offset(c):
    op, a = c["op"], c["a"]
    if op in ("splice", "copy", "split"):
        return a[2] < 0
    if op in ("merge", "delete", "resize", "read", "rd1", "peek", "extract", "iovec", "insert",
              "wmap", "poke", "slin"):
        return a[1] < 0
    return False


class Judge:
    """validates executions with BlockBuf_Trace; every rejection is localised
    (which call left which block wrong: prefixes of the execution followed by
    one read at one offset, each re-executed on the real code and judged by
    TLC), reported under a stable key, and its trigger is quarantined so that
    the rest of the exploration is still judged."""

    def __init__(self, ctx, harness, max_keys=8, budget_s=600, jobs=3):
        self.ctx = ctx
        self.h = harness
        self.rules = []           # (when, op, r): "before" | "after"
        self.reported = {}
        self.max_keys = max_keys
        self.budget_s = budget_s
        self.jobs = jobs
        self.spent = 0.0          # seconds spent analysing rejections
        self.accepted = 0         # executions accepted in full (possibly shortened by quarantine)
        self.events = 0
        self.shortened = 0
        self.nrun = 0
        self.gave_up = False
        self.lock = threading.Lock()
        self.rejected = set()     # id() of executions the trace specification rejected

    def validate(self, exes, tag, max_reject=2, jobs=None):
        """-> ([(index, line, invariants)] of rejected executions, set of
        indices not looked at because a chunk stopped after max_reject
        rejections); executions are validated in parallel chunks"""
        if not exes:
            return [], set()
        jobs = jobs or self.jobs
        n = len(exes)
        nev = sum(len(e.script) for e in exes)
        # chunks of at most ~40000 events, at least `jobs` of them when there is enough work
        k = max(1, min(jobs, nev // 4000 + 1), (nev + 39999) // 40000)
        step = (n + k - 1) // k
        out, err, unproc = [], [], set()
        sem = threading.Semaphore(jobs)

        def one(base, part, t):
            with sem:
                try:
                    if err:
                        unproc.update(range(base, base + len(part)))
                        return
                    rej = self.ctx.validate_histories(TRACE[0], TRACE[1], [e.events() for e in part], tag=t,
                                                      max_reject=max_reject, timeout=1700)
                    out.extend((base + i, line, inv) for i, line, inv in rej)
                    if len(rej) >= max_reject:
                        unproc.update(range(base + rej[-1][0] + 1, base + len(part)))
                except Exception as ex:
                    err.append(ex)
        ths = []
        for b in range(0, n, step):
            with self.lock:
                self.nrun += 1
                t = "%s_%d" % (tag, self.nrun)
            ths.append(threading.Thread(target=one, args=(b, exes[b:b + step], t)))
        for t in ths:
            t.start()
        for t in ths:
            t.join()
        if err:
            raise err[0] if isinstance(err[0], vlib.ToolError) else vlib.ToolError("trace validation driver: %r" % err[0])
        return sorted(out), unproc

    def validate_all(self, exes, tag):
        """single TLC run over many short executions -> {index: rejected line}"""
        if not exes:
            return {}
        with self.lock:
            self.nrun += 1
            t = "%s_%d" % (tag, self.nrun)
        rej = self.ctx.validate_histories_1pass(TRACE[0], "BlockBuf_Trace_tol.cfg", [e.events() for e in exes],
                                                tag=t, timeout=1700)
        return {i: line for i, line, _ in rej}

    # -- quarantine
    def apply_rules(self, e):
        """-> True if a rule shortened the execution"""
        if e.source.startswith("counterexample"):
            return False
        eff = [(c, r) for c, r in zip(e.script, e.results) if r["r"] != "bad"]
        lim = len(eff) if e.cut is None else e.cut
        for i, (c, r) in enumerate(eff[:lim]):
            for when, op, rr in self.rules:
                if c["op"] == op and r["r"] == rr:
                    cut = i if when == "before" else i + 1
                    if cut < lim:
                        e.cut = cut
                        return True
                    return False
        return False

    # -- localisation
    def probes_for(self, c, sizes, p):
        out = []
        for h in sorted(set(handles_of(c))):
            n = sizes.get((p, h))
            if n is None:
                continue
            out.append(cmd("size", [h]))
            for o in range(min(n, 48)):
                out.append(cmd("rd1", [h, o, 1]))
            out.append(cmd("audit", [h]))
        return out

    def candidates(self, cfg, pre, source):
        """prefixes of `pre` (ending with a call that changes something, or
        complete) followed by one probe, in the order in which they are judged"""
        qs = []
        for p in range(1, len(pre) + 1):
            if pre[p - 1]["op"] in MUTATORS and pre[p - 1]["op"] != "free":
                for h in sorted(set(handles_of(pre[p - 1]))):
                    qs.append((p, h, Exe(cfg, pre[:p] + [cmd("size", [h])], "size query")))
        self.h.execute([q[2] for q in qs])
        sizes = {}
        for p, h, q in qs:
            r = q.results[-1] if q.results is not None and len(q.results) == p + 1 else None
            if r and r["r"] == "ok" and 0 <= r["n"] <= 4096:
                sizes[(p, h)] = r["n"]
        cands = []
        for p in range(1, len(pre) + 1):
            c = pre[p - 1]
            if p == len(pre):
                cands.append((p, None, Exe(cfg, pre[:p], source)))
            if c["op"] in MUTATORS and c["op"] != "free":
                for pr in self.probes_for(c, sizes, p):
                    cands.append((p, pr, Exe(cfg, pre[:p] + [pr], source)))
        return cands

    def first_rejected(self, cands, tag):
        if not cands:
            return None
        self.h.execute([c[2] for c in cands])
        cands = [c for c in cands if c[2].results is not None]
        rej = self.validate_all([c[2] for c in cands], tag)
        if not rej:
            return None
        k = min(rej)
        return cands[k] + (rej[k], [])

    def localise(self, e, line):
        eff = e.effective()
        idx = min(line - 2, len(eff) - 1)
        if idx < 0:
            raise vlib.ToolError("trace rejected at the Reset line")
        full = [c for c, _ in eff[:idx + 1]]
        sl = slice_script(full, idx)
        cands = []
        if len(sl) < len(full):
            cands += self.candidates(e.cfg, sl, e.source)
        if len(full) <= 60 or not cands:
            cands += self.candidates(e.cfg, full, e.source)
        hit = self.first_rejected(cands, "loc")
        if hit is None and len(full) > 60:
            hit = self.first_rejected(self.candidates(e.cfg, full, e.source), "locf")
        return hit

    def minimise(self, cfg, script, source, passes=4):
        """drop commands of the prefix while the last line is still the
        rejected one (each pass: every single removal, judged in one TLC run).
        -> (script, executed execution of it or None if nothing was removed)"""
        best, bexe = list(script), None
        for _ in range(passes):
            idxs = list(range(len(best) - 1))
            cands = [Exe(cfg, best[:i] + best[i + 1:], source) for i in idxs]
            if not cands:
                break
            self.h.execute(cands)
            live = [(i, c) for i, c in zip(idxs, cands) if c.results is not None]
            idxs, cands = [i for i, _ in live], [c for _, c in live]
            rej = self.validate_all(cands, "min")
            ok = [k for k, i in enumerate(idxs)
                  if rej.get(k) == len(best) and not any(r["r"] == "bad" for r in cands[k].results)]
            if not ok:
                break
            gone = set(idxs[k] for k in ok)
            trial = [c for i, c in enumerate(best) if i not in gone]
            x = Exe(cfg, trial, source)
            self.h.execute([x])
            if len(ok) > 1 and x.results is not None and not any(r["r"] == "bad" for r in x.results) and \
                    self.validate_all([x], "min").get(0) == len(trial) + 1:
                best, bexe = trial, x
            else:
                k = ok[-1]
                best, bexe = cands[k].script, cands[k]
        return best, bexe

    def report(self, e, line, inv):
        hit = self.localise(e, line)
        if hit is None:
            raise vlib.ToolError("rejected execution did not reproduce (flaky harness?) cfg=%s script=%s"
                                 % (e.cfg["name"], "; ".join(e.text()[:line - 1])))
        p, probe, x, l2, inv2 = hit
        eff = x.effective()
        own = l2 - 2 <= p - 1
        if own:
            culprit, cres = eff[l2 - 2]
            wit = [c for c, _ in eff[:l2 - 1]]
        else:
            culprit, cres = eff[p - 1]
            wit = [c for c, _ in eff[:l2 - 1]]
        ev = x.events()
        bad = ev[l2 - 1] if l2 - 1 < len(ev) else {}
        key = make_key(culprit, cres, own, probe["op"] if probe else None, bad.get("r"))
        # smallest script with the same last line; what it needs names the context
        need = (not self.ctx.quick) or any(has_negative_offset(c) for c in wit[:-1]) or \
            e.source.startswith("counterexample")
        xs, small, l3 = x, wit, l2
        if need and len(wit) > 2:
            sm, smx = self.minimise(e.cfg, wit, e.source)
            if smx is not None:
                xs, small, l3 = smx, sm, len(sm) + 1
        evs = xs.events()
        bad = evs[l3 - 1] if l3 - 1 < len(evs) else bad
        rj = [(0, l3, inv2)]
        ci = max(i for i, c in enumerate(small[:l3 - 1]) if c["op"] == culprit["op"]) if any(
            c["op"] == culprit["op"] for c in small[:l3 - 1]) else len(small) - 1
        if any(has_negative_offset(c) for c in small[:ci]):
            key += ";after-negative-offset-access"
        txt = xs.text()[:l3 - 1]
        what = ("%s: real %s (manager %s) leaves the byte-string / sharing specification at '%s' -> %s%s; "
                "script: %s" % (key, "uref_block API" if e.cfg["args"].get("api") == "uref" else "ubuf_block API",
                                e.cfg["name"], txt[-1] if txt else "?",
                                json.dumps({k: bad.get(k) for k in ("r", "n", "b", "ps", "pe", "pb")}),
                                (" (violated: %s)" % ",".join(rj[0][2])) if rj[0][2] else "", "; ".join(txt)))
        rule = ("before" if own else "after", culprit["op"], cres["r"])
        with self.lock:
            if rule not in self.rules:
                self.rules.append(rule)
            if key not in self.reported:
                self.reported[key] = {"script": txt, "cfg": e.cfg["name"], "source": e.source}
                self.ctx.violation(key, what, {"harness_args": cfg_argv(e.cfg), "cfg": e.cfg, "script": txt,
                                               "trace": evs[:l3], "source": e.source, "violated": rj[0][2]})
        return key

    def over(self):
        return len(self.reported) >= self.max_keys or self.spent > self.budget_s

    def judge(self, exes, tag, max_rounds=16):
        pend = list(exes)
        for e in pend:
            self.apply_rules(e)
        for rnd in range(max_rounds):
            rej, unproc = self.validate(pend, tag, max_reject=3)
            rejidx = set(i for i, _, _ in rej)
            # looked at and not rejected: accepted for good (a prefix of an accepted execution is accepted)
            for i, e in enumerate(pend):
                if i not in rejidx and i not in unproc:
                    self.accepted += 1
                    self.events += len(e.effective())
                    self.shortened += 1 if e.cut is not None else 0
            if not rej:
                return
            again = []
            todo = []
            for idx, line, inv in rej:
                e = pend[idx]
                self.rejected.add(id(e))
                if self.apply_rules(e):
                    again.append(e)       # a rule found meanwhile covers it: judged again
                elif not self.over():
                    todo.append((e, line, inv))
            # the rejected executions are analysed side by side
            err = []

            def one(e, line, inv):
                try:
                    self.report(e, line, inv)
                except Exception as ex:
                    err.append(ex)
            ths = [threading.Thread(target=one, args=t) for t in todo[:6]]
            tr = time.time()
            for t in ths:
                t.start()
            for t in ths:
                t.join()
            self.spent += time.time() - tr
            if err:
                raise err[0] if isinstance(err[0], vlib.ToolError) else vlib.ToolError("report driver: %r" % err[0])
            for e, line, inv in todo:
                if self.apply_rules(e):
                    again.append(e)
            rest = [pend[i] for i in sorted(unproc)]
            for e in rest:
                self.apply_rules(e)
            pend = again + rest
            if self.over() and pend:
                self.gave_up = True
                self.ctx.notes.append("reporting limit reached: %d executions were not judged one by one" % len(pend))
                return
            if not pend:
                return
        self.gave_up = True
        self.ctx.notes.append("more rejected executions than rounds of reporting: remaining ones not analysed")


# ------------------------------------------------------------------- TLC jobs
class Models:
    """runs TLC jobs in the background (a few JVMs side by side); results are
    collected and judged in the main thread"""

    def __init__(self, ctx, jobs, parallel=3):
        self.ctx = ctx
        self.jobs = jobs
        self.res = {}
        self.err = []
        self.done = {j["cfg"]: threading.Event() for j in jobs}
        self.sem = threading.Semaphore(parallel)
        self.threads = [threading.Thread(target=self._one, args=(j,)) for j in jobs]
        for t in self.threads:
            t.start()

    def _one(self, j):
        with self.sem:
            try:
                if not self.err:
                    self.res[j["cfg"]] = self.ctx.tlc(
                        j["module"], j["cfg"] + ".cfg", workers=j.get("workers", 1), coverage=j.get("cov", False),
                        heap=j.get("heap", "4g"), timeout=j.get("timeout", 900), count=False, name=j["cfg"],
                        simulate=j.get("simulate"), depth=j.get("depth"))
            except Exception as ex:
                self.err.append(ex)
            finally:
                self.done[j["cfg"]].set()

    def get(self, cfg):
        self.done[cfg].wait()
        if self.err:
            self.join()
            ex = self.err[0]
            raise ex if isinstance(ex, vlib.ToolError) else vlib.ToolError("TLC driver: %r" % ex)
        return self.res[cfg]

    def join(self):
        for t in self.threads:
            t.join()


def check_models(ctx, models, jobs):
    """verdicts on the models themselves (never a verdict on the code)"""
    models.join()
    if models.err:
        ex = models.err[0]
        raise ex if isinstance(ex, vlib.ToolError) else vlib.ToolError("TLC driver: %r" % ex)
    negs = {}
    for j in jobs:
        r = models.res[j["cfg"]]
        kind = j["kind"]
        if kind in ("pos", "cov"):
            ctx.model_must_hold(r, j["cfg"])
            if kind == "pos":
                ctx.states += r.distinct
                ctx.transitions += r.generated
            if j.get("cov"):
                missing = [a for a in j["need"] if r.coverage.get(a, (0, 0))[1] == 0]
                if missing:
                    raise vlib.ToolError("vacuity: %s: actions never taken: %s" % (j["cfg"], missing))
        elif kind == "covbeh":
            ctx.model_must_hold(r, j["cfg"])
            seen = set()
            for b in parse_beh(r, "BEH"):
                for x in b["hist"]:
                    seen.add(rec_of(x)["op"])
            missing = [a for a in j["need"] if a not in seen]
            if missing:
                raise vlib.ToolError("vacuity: %s: calls never taken: %s" % (j["cfg"], missing))
        elif kind == "neg":
            if not r.violated:
                raise vlib.ToolError("vacuity: negative configuration %s not rejected by TLC" % j["cfg"])
            negs[j["cfg"]] = r.violated
        elif kind in ("emit", "sim"):
            if r.violated or r.rc != 0:
                raise vlib.ToolError("behaviour emission %s failed: %s\n%s" % (j["cfg"], r.violated, r.out[-1500:]))
    ctx.extra["negative_configurations_rejected"] = negs
    ctx.exhaustive = True


def parse_beh(res, tag):
    out = []
    for t, payload in res.printed:
        if t != tag:
            continue
        payload = payload.strip()
        if payload.startswith('"') and payload.endswith('"'):
            body = payload[1:-1].replace('\\"', '"').replace("\\\\", "\\")
            out.append(json.loads(body))
    return out


# ------------------------------------------------------------------ the check
DIRECT = {2: ["p0_pre2", "p4_pre2_app3_upool", "p3_pre2_uref"], 0: ["p1_pre0"], 1: ["p2_pre1"]}
INDIRECT = ["p2_pre2_align16", "p0_pre1_align4_uref"]


def exes_of_behaviours(behs, pre, nh, source, also_indirect=8):
    """every behaviour on one manager whose room is the model's Pre (result by
    result comparison), one in `also_indirect` also on an aligning manager
    (judged by the trace specification only)"""
    out = []
    names = DIRECT[pre]
    for i, b in enumerate(behs):
        out.append(beh_to_exe(b, nh, CFG[names[i % len(names)]], source))
        if also_indirect and i % also_indirect == 0 and pre == 2:
            x = beh_to_exe(b, nh, CFG[INDIRECT[(i // also_indirect) % len(INDIRECT)]], source)
            x.expect = None
            out.append(x)
    return out


def run_check(ctx, plan):
    """plan: dict built by checks/c03.py or checks/c02.py"""
    t0 = time.time()
    quick = ctx.quick
    models = Models(ctx, plan["jobs"], parallel=plan.get("parallel", 3))
    try:
        h = Harness(ctx)
        judge = Judge(ctx, h, max_keys=plan.get("max_keys", 8), budget_s=plan["judge_budget_s"],
                      jobs=plan.get("validate_jobs", 3))
        # ---- code -> spec: seeded random scripts (generated and run while TLC works)
        rng = vlib.Rng(ctx.seed)
        rnd = []
        for i in range(plan["random_scripts"]):
            cfg = CONFIGS[i % len(CONFIGS)]
            g = Gen(rng, plan["mode"], plan["nh"], plan["maxlen"], cfg["args"].get("pre", 0))
            rnd.append(Exe(cfg, g.script(plan["script_len"]), "random seed=%d #%d" % (ctx.seed, i)))
        rnd = h.execute(rnd)
        # ---- spec -> code: counterexamples of the negative variants first
        cex = []
        for j in plan["jobs"]:
            if j["kind"] == "neg" and j.get("cex"):
                r = models.get(j["cfg"])
                for b in parse_beh(r, "CEX"):
                    for name in DIRECT[2][:1 if quick else 3]:
                        x = beh_to_exe(b, j["nh"], CFG[name], "counterexample of model variant %s (%s)" % (j["cfg"], b.get("bad")))
                        cex.append(x)
        cex = h.execute(cex)
        judge.judge(cex, "cex")
        ctx.extra["counterexample_of_negative_variant_rejected_on_real_code"] = {
            x.source + " @" + x.cfg["name"]: id(x) in judge.rejected for x in cex}
        # ---- spec -> code: behaviours emitted by TLC (BFS and simulation)
        beh_exes = []
        nbeh = 0
        for j in plan["jobs"]:
            if j["kind"] in ("emit", "sim"):
                r = models.get(j["cfg"])
                behs = parse_beh(r, "BEH")
                if not behs:
                    raise vlib.ToolError("TLC emitted no behaviour for %s" % j["cfg"])
                nbeh += len(behs)
                src = "TLC %s %s" % ("BFS" if j["kind"] == "emit" else "simulation seed=%d" % ctx.seed, j["cfg"])
                beh_exes += exes_of_behaviours(behs, j["pre"], j["nh"], src, also_indirect=plan.get("also_indirect", 8))
        beh_exes = h.execute(beh_exes)
        diffs = []
        for x in beh_exes:
            if x.expect is not None:
                d = compare(x)
                if d is not None:
                    diffs.append((x, d))
        # ---- the verdict: every execution is judged by the trace specification
        judge.judge(beh_exes, "sc")
        judge.judge(rnd, "cs")
        # ---- the models themselves
        check_models(ctx, models, plan["jobs"])
    finally:
        models.join()
    allx = cex + beh_exes + rnd
    ctx.traces = judge.accepted
    ctx.evaluations += len(allx)
    ctx.extra.update({
        "model_behaviours_replayed": nbeh,
        "counterexample_behaviours_replayed": len(cex),
        "random_scripts": len(rnd),
        "executions_on_real_code": len(allx),
        "executions_accepted_by_trace_spec": judge.accepted,
        "of_which_shortened_by_quarantine": judge.shortened,
        "events_validated": judge.events,
        "harness_commands_run": h.commands_run,
        "commands_dropped_as_malformed": sum(1 for e in allx for r in e.results if r["r"] == "bad"),
        "behaviours_differing_from_prediction": len(diffs),
        "sanitizer_crash_or_hang_reports": len(h.crashes),
        "scripts_not_executed_after_repeated_crashes": h.not_executed,
        "manager_configurations": [c["name"] for c in CONFIGS],
        "quarantine_rules": ["%s %s->%s" % r for r in judge.rules],
        "keys_reported": sorted(judge.reported),
    })
    ops = {}
    for e in allx:
        for c, r in zip(e.script, e.results):
            if r["r"] != "bad":
                k = c["op"] + ":" + ("ok" if r["r"] == "ok" else r["r"])
                ops[k] = ops.get(k, 0) + 1
    ctx.extra["calls_by_result"] = dict(sorted(ops.items()))
    if diffs:
        x, d = diffs[0]
        ctx.extra["first_difference"] = {"cfg": x.cfg["name"], "script": [cmd_text(c) for c in x.script[:d + 1]],
                                        "predicted": {k: x.expect[d].get(k) for k in ("res", "n", "b")},
                                        "got": x.results[d]}
        if not ctx.violations and not ctx.known_hits:
            ctx.extra["model_drift"] = True
            ctx.notes.append("real code differs from a prediction of the model without leaving the abstract "
                             "specification (e.g. a grant decision or a room): recorded, not a violation")
    for x in beh_exes:
        if x.expect is not None and 6 <= len(x.script) <= 16:
            ctx.sample({"source": x.source, "manager": x.cfg["name"], "script": [cmd_text(c) for c in x.script],
                        "predicted": [[q.get("res"), q.get("n"), q.get("b")] for q in x.expect],
                        "got": [[r["r"], r["n"], r["b"]] for r in x.results]}, limit=2)
            break
    for x in rnd[:1]:
        ctx.sample({"source": x.source, "manager": x.cfg["name"], "script": x.text()[:14],
                    "events": x.events()[:10]}, limit=3)
    ctx.extra["wall_s_of_parts"] = {"total": round(time.time() - t0, 1)}
    return judge


def replay_file(ctx, rp, pid):
    """bin/check <pid> --replay file: re-run the stored script"""
    h = Harness(ctx)
    cfg = rp["replay"]["cfg"]
    x = Exe(cfg, [text_cmd(t) for t in rp["replay"]["script"]], "replay")
    if not h.execute([x]):
        raise vlib.ToolError("replay script was not executed")
    rej = ctx.validate_histories(TRACE[0], TRACE[1], [x.events()], tag="replay")
    if rej:
        ev = x.events()
        print("VIOLATION property=%s replay reproduced: line %d %s" % (pid, rej[0][1], json.dumps(ev[min(rej[0][1], len(ev)) - 1])))
        return 1
    print("OK property=%s replay accepted" % pid)
    return 0
