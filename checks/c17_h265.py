"""C17 stage 3 - the H.265 framer (lib/upipe-framers/upipe_h265_framer.c,
Annex B input) with a clean-room shim of bitstream/itu/h265.h.

checks/c17.py calls run_part(ctx) at the end of its run(); `bin/check
C17_H265` runs this part alone (run(ctx)).

1. TLC checks spec/Nal265Scan.tla exhaustively (transcription of
   upipe_framers_mpeg_scan and of upipe_h265f_find: two-octet NAL unit header
   - a start code whose second header octet has not arrived is given back to
   the scanner -, octet before the start code taken from the buffer or from
   the block) over ALL cuttings of short strings against the abstract
   positions of the NAL units (ChunkInvariant, Monotone, NoTrap), with a
   vacuity guard, and must reject the broken variants (among them "lead":
   the function as found in the tree, on streams that begin with 00 00 01).
2. spec -> code: every call of upipe_h265f_find the model made (buffers
   appended so far, predicted result / au_size / scan context / start octet /
   previous octet) is made on the real static function (the harness
   #includes the source file of the framer) and compared textually.
3. code -> spec: elementary streams written by the reference bit-writer below
   (VPS / SPS / PPS / AUD / slice segment / SEI / filler / end of sequence NAL
   units per ITU-T H.265 7.3; temporal sub-layers, reference picture sets,
   VUI / HRD; with and without access unit delimiters) are fed to the real
   framer (harness/replay_nal_h265f.c, ASan + UBSan) whole, octet by octet,
   one access unit per buffer, with every single cut and many double cuts of
   a short stream and with random cuttings and segmentations of random
   streams; spec/Nal265_Trace.tla DERIVES the access units of the stream
   (7.4.2.4.4; the generator's own list must agree) and requires of every
   output: it is the next access unit, its stored NAL offsets delimit its
   NAL units, nothing before it was input, no error event, nothing missing
   at release.  Streams with a discontinuity and corrupt streams (octets
   altered; parameter sets with values outside the ranges of the standard)
   are judged by what the statement still says about them (stored offsets
   delimit the NAL units of whatever is output; no sanitizer report).
A violation is reported only for an execution of the real code that the
trace specification rejects twice.
"""
import json, os, threading, time
import vlib
from checks import c17 as base

Exe, hexs, seg_str, rand_cuts, kv, int_list, BitW = (base.Exe, base.hexs, base.seg_str, base.rand_cuts,
                                                     base.kv, base.int_list, base.BitW)

LEVEL = "model_checking"
H265_SRCS = ["replay_nal_h265f.c",        # #includes lib/upipe-framers/upipe_h265_framer.c of the tree
             "lib/upipe-framers/upipe_h26x_common.c", "lib/upipe-framers/upipe_framers_common.c",
             "lib/upipe/uprobe.c", "lib/upipe/ubuf_block_mem.c", "lib/upipe/ubuf_mem_common.c",
             "lib/upipe/umem_alloc.c", "lib/upipe/uref_std.c", "lib/upipe/uref_pic_flow.c",
             "lib/upipe/udict_inline.c"]
# a variable length array of zero elements (bool subl_profile_present[max_subl_1] with
# max_subl_1 = 0 in upipe_h265f_stream_parse_ptl, the arrays of short-term reference
# picture sets of an SPS that has none) is reported by -fsanitize=vla-bound on every
# ordinary stream; nothing is read or written through such an array and the statement
# speaks about reads outside buffers: that one check is turned off
# (ctx.cc puts its own -fsanitize=... after `flags`, which would turn the check on
# again: the sanitizer options are given here, in order, and ctx.cc gets san=None)
SHIM_FLAGS = ["-I", os.path.join(vlib.HARNESS, "shim"),
              "-fsanitize=address,undefined", "-fno-omit-frame-pointer", "-fno-sanitize-recover=undefined",
              "-fno-sanitize=vla-bound",
              "-O0", "-g0"]               # (the harness #includes the 3000 lines of the framer: -O1 -g takes 4 times longer)


TRACE = ("Nal265_Trace", "Nal265_Trace.cfg")
KINDS = ("h265", "h265d", "h265raw")


def build(ctx):
    return ctx.cc("replay_nal_h265f_asan", H265_SRCS, flags=SHIM_FLAGS)


# ------------------------------------------------ reference bit-writer (H.265)
# nal_unit_type (Table 7-1)
TRAIL_N, TRAIL_R, TSA_N, RADL_N, RASL_R = 0, 1, 2, 6, 9
BLA_W_LP, IDR_W_RADL, IDR_N_LP, CRA = 16, 19, 20, 21
VPS, SPS, PPS, AUD, EOS, EOB, FD, PREF_SEI, SUFF_SEI = 32, 33, 34, 35, 36, 37, 38, 39, 40
LEVELS = [30, 60, 63, 90, 93, 120, 123, 150, 153, 156, 180, 183, 186]


def nal265(typ, tid1, rbsp, sc, layer=0):
    """7.3.1.1 / 7.3.1.2: start code, nal_unit_header (forbidden_zero_bit,
    nal_unit_type u(6), nuh_layer_id u(6), nuh_temporal_id_plus1 u(3)), the
    payload with emulation prevention (7.4.2)."""
    out, z = [], 0
    for b in rbsp:
        if z >= 2 and b <= 3:
            out.append(3)
            z = 0
        out.append(b)
        z = z + 1 if b == 0 else 0
    if out and out[-1] == 0:
        out.append(3)                     # cabac_zero_words style ending: never ends with 00
    hdr = [(typ << 1) | (layer >> 5), ((layer & 31) << 3) | tid1]
    return [0] * (sc - 1) + [1] + hdr + out


def ptl(b, p, max_sub_1):
    """7.3.3 profile_tier_level(1, maxNumSubLayersMinus1)."""
    b.u(2, 0); b.u(1, p["tier"]); b.u(5, p["profile"])
    b.u(16, p["compat"] >> 16); b.u(16, p["compat"] & 0xFFFF)
    b.u(1, 1); b.u(1, 0); b.u(1, 0); b.u(1, 1)         # progressive, interlaced, non packed, frame only
    b.u(16, 0); b.u(16, 0); b.u(11, 0); b.u(1, 0)      # 43 reserved bits, general_inbld_flag
    b.u(8, p["level"])
    for i in range(max_sub_1):
        b.u(1, p["sub"][i][0]); b.u(1, p["sub"][i][1])
    if max_sub_1 > 0:
        for i in range(max_sub_1, 8):
            b.u(2, 0)
    for i in range(max_sub_1):
        if p["sub"][i][0]:
            b.u(8, 1); b.u(16, 0x6000); b.u(16, 0)     # sub_layer space / tier / profile, compatibility
            b.u(4, 9); b.u(16, 0); b.u(16, 0); b.u(12, 0)
        if p["sub"][i][1]:
            b.u(8, p["level"])


def h265_vps(p, sc):
    """7.3.2.1 video_parameter_set_rbsp."""
    b = BitW()
    m = p["max_sub_1"]
    b.u(4, p["vps_id"]); b.u(1, 1); b.u(1, 1); b.u(6, 0); b.u(3, m); b.u(1, 1); b.u(16, 0xFFFF)
    ptl(b, p, m)
    b.u(1, p["sub_order"])
    for i in range(0 if p["sub_order"] else m, m + 1):
        b.ue(p["dpb_1"]); b.ue(0); b.ue(0)
    b.u(6, 0); b.ue(0); b.u(1, 0); b.u(1, 0)           # max_layer_id, num_layer_sets_minus1, timing, extension
    return nal265(VPS, 1, b.rbsp(), sc)


def st_ref_pic_set(b, idx, n_sets, r):
    """7.3.7 st_ref_pic_set(idx).  r = {"neg": n, "pos": m}: explicit, deltas of
    one picture, every picture used; or {"pred": [used_by_curr_pic_flag...],
    "sign": s, "abs": a}: predicted from the previous set with
    delta_rps = (1 - 2s)(a + 1), one flag per picture of that set and one for it."""
    pred = "pred" in r
    if idx:
        b.u(1, 1 if pred else 0)                           # inter_ref_pic_set_prediction_flag
    if pred:
        if idx == n_sets:
            b.ue(0)                                        # delta_idx_minus1 (slice header only)
        b.u(1, r["sign"]); b.ue(r["abs"])
        for f in r["pred"]:
            b.u(1, 1 if f else 0)                          # used_by_curr_pic_flag
            if not f:
                b.u(1, 1)                                  # use_delta_flag
    else:
        b.ue(r["neg"]); b.ue(r["pos"])
        for _ in range(min(r["neg"] + r["pos"], r.get("written", 1 << 30))):
            b.ue(0); b.u(1, 1)                             # delta_poc_sX_minus1, used_by_curr_pic_sX_flag


def rps_pics(rps, i):
    """NumDeltaPocs of set i (7.4.8) for the sets this writer makes."""
    r = rps[i]
    return (rps_pics(rps, i - 1) + 1) if "pred" in r else r["neg"] + r["pos"]


def hrd_parameters(b, v, max_sub_1):
    """E.2.2 hrd_parameters(1, maxNumSubLayersMinus1), NAL HRD only, one CPB."""
    b.u(1, 1); b.u(1, 0)
    b.u(1, v["sub_pic"])
    if v["sub_pic"]:
        b.u(8, 0); b.u(5, 3); b.u(1, 0); b.u(5, 3)
    b.u(4, v["br_scale"]); b.u(4, v["cpb_scale"])
    if v["sub_pic"]:
        b.u(4, 0)
    b.u(5, 23); b.u(5, 23); b.u(5, 23)
    for i in range(max_sub_1 + 1):
        b.u(1, v["fixed"])
        within = 1
        if not v["fixed"]:
            within = v["within"]
            b.u(1, within)
        low_delay = 0
        if within:
            b.ue(0)
        else:
            low_delay = v["low_delay"]
            b.u(1, low_delay)
        if not low_delay:
            b.ue(0)                                        # cpb_cnt_minus1
        b.ue(v["br"]); b.ue(v["cpb"])                      # sub_layer_hrd_parameters: one CPB
        if v["sub_pic"]:
            b.ue(0); b.ue(0)
        b.u(1, 0)


def vui_parameters(b, v, max_sub_1):
    """E.2.1 vui_parameters."""
    b.u(1, 1 if v.get("ar") is not None else 0)
    if v.get("ar") is not None:
        b.u(8, v["ar"])
        if v["ar"] == 255:
            b.u(16, v["sar"][0]); b.u(16, v["sar"][1])
    b.u(1, v.get("overscan", 0))
    if v.get("overscan", 0):
        b.u(1, 1)
    b.u(1, 1 if v.get("signal") else 0)
    if v.get("signal"):
        b.u(3, v["signal"][0]); b.u(1, v["signal"][1])
        b.u(1, 1 if len(v["signal"]) > 2 else 0)
        if len(v["signal"]) > 2:
            b.u(8, v["signal"][2]); b.u(8, v["signal"][3]); b.u(8, v["signal"][4])
    b.u(1, v.get("chroma_loc", 0))
    if v.get("chroma_loc", 0):
        b.ue(1); b.ue(1)
    b.u(1, 0); b.u(1, 0); b.u(1, 0)                        # neutral chroma, field seq, frame field info
    b.u(1, v.get("window", 0))
    if v.get("window", 0):
        b.ue(0); b.ue(1); b.ue(0); b.ue(1)
    b.u(1, 1 if v.get("timing") else 0)
    if v.get("timing"):
        t = v["timing"]
        b.u(16, t[0] >> 16); b.u(16, t[0] & 0xFFFF); b.u(16, t[1] >> 16); b.u(16, t[1] & 0xFFFF)
        b.u(1, v.get("poc_prop", 0))
        if v.get("poc_prop", 0):
            b.ue(0)
        b.u(1, 1 if v.get("hrd") else 0)
        if v.get("hrd"):
            hrd_parameters(b, v["hrd"], max_sub_1)
    b.u(1, 0)                                              # bitstream_restriction_flag


def h265_sps(p, sc):
    """7.3.2.2.1 seq_parameter_set_rbsp: no scaling lists, no PCM, no long
    term pictures; 0-3 short-term reference picture sets (explicit or
    predicted from the previous one); VUI absent, minimal, or with aspect
    ratio, video signal, chroma location, display window, timing and HRD."""
    b = BitW()
    m = p["max_sub_1"]
    b.u(4, p["vps_id"]); b.u(3, m); b.u(1, 1)
    ptl(b, p, m)
    b.ue(p["sps_id"]); b.ue(p["chroma"])
    if p["chroma"] == 3:
        b.u(1, 0)
    b.ue(p["w"]); b.ue(p["h"])
    b.u(1, p["crop"])
    if p["crop"]:
        b.ue(0); b.ue(1); b.ue(0); b.ue(1)
    b.ue(p["depth"] - 8); b.ue(p["depth"] - 8); b.ue(p["log2_poc"] - 4)
    b.u(1, p["sub_order"])
    for i in range(0 if p["sub_order"] else m, m + 1):
        b.ue(p["dpb_1"]); b.ue(0); b.ue(0)
    b.ue(0); b.ue(1); b.ue(0); b.ue(2); b.ue(1); b.ue(1)   # 8x8 coding blocks, 16x16 coding tree blocks
    b.u(1, 0); b.u(1, 0); b.u(1, 1); b.u(1, 0)             # scaling lists, amp, sao, pcm
    b.ue(p.get("n_rps_claimed", len(p["rps"])))
    for i, r in enumerate(p["rps"]):
        st_ref_pic_set(b, i, len(p["rps"]), r)
    b.u(1, 0); b.u(1, 1); b.u(1, 1)                        # long term, temporal mvp, strong intra smoothing
    b.u(1, 1 if p["vui"] is not None else 0)
    if p["vui"] is not None:
        vui_parameters(b, p["vui"], m)
    b.u(1, 0)                                              # sps_extension_present_flag
    return nal265(SPS, 1, b.rbsp(), sc)


def h265_pps(p, sc):
    """7.3.2.3.1 pic_parameter_set_rbsp: no tiles, no dependent slice segments."""
    b = BitW()
    b.ue(p["pps_id"]); b.ue(p["sps_id"]); b.u(1, 0); b.u(1, 0); b.u(3, p["extra"])
    b.u(1, 0); b.u(1, 0); b.ue(0); b.ue(0); b.se(p["qp"]); b.u(1, 0); b.u(1, 0); b.u(1, 0)
    b.se(0); b.se(0); b.u(1, 0); b.u(1, 0); b.u(1, 0); b.u(1, 0); b.u(1, 0); b.u(1, 0)
    b.u(1, 1); b.u(1, 0); b.u(1, 0); b.u(1, 0); b.ue(0); b.u(1, 0); b.u(1, 0)
    return nal265(PPS, 1, b.rbsp(), sc)


def h265_aud(pic_type, tid1, sc):
    """7.3.2.5 access_unit_delimiter_rbsp."""
    b = BitW()
    b.u(3, pic_type)
    return nal265(AUD, tid1, b.rbsp(), sc)


def ctbs(p):
    return ((p["w"] + 15) // 16) * ((p["h"] + 15) // 16)


def h265_slice(p, typ, tid1, first, address, slice_type, poc, payload, sc):
    """7.3.6.1 slice_segment_header up to the short-term reference picture
    set; what follows is opaque to a framer."""
    b = BitW()
    b.u(1, 1 if first else 0)
    if BLA_W_LP <= typ <= 23:
        b.u(1, 0)                                          # no_output_of_prior_pics_flag
    b.ue(p["pps_id"])
    if not first:
        n = (ctbs(p) - 1).bit_length()                     # Ceil(Log2(PicSizeInCtbsY))
        if n:
            b.u(n, address)
    for _ in range(p["extra"]):
        b.u(1, 0)                                          # slice_reserved_flag
    b.ue(slice_type)
    if typ not in (IDR_W_RADL, IDR_N_LP):
        nb = min(p["log2_poc"], 16)                        # (a 'wild' SPS may claim more)
        b.u(nb, poc % (1 << nb))
        n = len(p["rps"])
        if n:
            b.u(1, 1)                                      # short_term_ref_pic_set_sps_flag
            if n > 1:
                b.u((n - 1).bit_length(), 0)               # short_term_ref_pic_set_idx u(Ceil(Log2(n)))
        else:
            b.u(1, 0)
            st_ref_pic_set(b, 0, 0, {"neg": 1, "pos": 0})
    for x in payload:
        b.u(8, x)
    return nal265(typ, tid1, b.rbsp(), sc)


def h265_sei(typ, tid1, rng, sc):
    """7.3.2.4 / 7.3.5: one user_data_unregistered message (payloadType 5)."""
    n = 16 + rng.below(6)
    body = [5, n] + [rng.choice([0, 0, 1, 3, 0x80, rng.below(256)]) for _ in range(n)] + [0x80]
    return nal265(typ, tid1, body, sc)


def h265_vui(rng):
    c = rng.below(4)
    if c == 0:
        return {}
    if c == 1:
        return {"timing": [1001, 30000]}
    v = {"ar": rng.choice([None, 1, 16, 255, 200]), "sar": [1 + rng.below(300), 1 + rng.below(300)],
         "overscan": rng.below(2), "chroma_loc": rng.below(2), "window": rng.below(2),
         "signal": rng.choice([None, [5, 0], [1, 1, 1, 1, 1], [0, 0, 9, 16, 9], [2, 1, 2, 2, 2]]),
         "timing": rng.choice([None, [1001, 60000], [1, 25]]), "poc_prop": rng.below(2)}
    if v["timing"] and rng.chance(1, 2):
        v["hrd"] = {"sub_pic": rng.below(2), "br_scale": rng.below(8), "cpb_scale": rng.below(8), "fixed": rng.below(2),
                    "within": rng.below(2), "low_delay": rng.below(2), "br": rng.below(5000), "cpb": rng.below(5000)}
    return v


def h265_params(rng, plain=False):
    """plain: one temporal layer, no VUI (the directed streams)."""
    m = 0 if plain else rng.choice([0, 0, 0, 1, 2])
    dpb_1 = 1 + rng.below(4)
    rps = []
    for i in range(rng.choice([0, 1, 1, 2, 3])):
        if i and rps_pics(rps, i - 1) + 1 <= dpb_1 and rng.chance(1, 2):
            rps.append({"pred": [1] * (rps_pics(rps, i - 1) + 1), "sign": 1, "abs": 0})
        else:
            neg = 1 + rng.below(dpb_1)
            rps.append({"neg": neg, "pos": rng.below(dpb_1 - neg + 1)})
    return {"vps_id": rng.below(16), "sps_id": rng.below(16), "pps_id": rng.below(64),
            "max_sub_1": m, "sub": [[rng.below(2), rng.below(2)] for _ in range(m)],
            "sub_order": rng.below(2), "dpb_1": dpb_1,
            "tier": rng.below(2), "profile": rng.choice([1, 2]), "compat": 0x60000000,
            "level": rng.choice(LEVELS), "chroma": rng.choice([1, 1, 1, 0, 2, 3]),
            "w": 8 * (1 + rng.below(60)), "h": 8 * (1 + rng.below(40)), "crop": 1 if rng.chance(1, 4) else 0,
            "depth": rng.choice([8, 8, 10]), "log2_poc": 4 + rng.below(6), "rps": rps,
            "vui": None if (plain or rng.chance(1, 2)) else h265_vui(rng),
            "extra": rng.choice([0, 0, 1, 2]), "qp": rng.below(9) - 4}


def wild(rng, p, first=None):
    """Parameter sets that are well formed bit strings but hold values outside
    the ranges of the standard (for the 'corrupt input' executions)."""
    big = lambda: rng.choice([16, 17, 63, 64, 65, 255, 1000, 70000, (1 << 31) - 2])
    for i in range(1 + rng.below(2)):
        c = first % 12 if (i == 0 and first is not None) else rng.below(12)
        if c == 0:
            p["sps_id"] = big()
        elif c == 1:
            p["pps_id"] = big()
        elif c == 2:
            p["chroma"] = 4 + rng.below(5)
        elif c == 3:
            p["depth"] = 8 + big()
        elif c == 4:
            p["log2_poc"] = 4 + big()
        elif c == 5:
            p["max_sub_1"] = 3 + rng.below(5)
            p["sub"] = [[rng.below(2), rng.below(2)] for _ in range(p["max_sub_1"])]
        elif c == 6:
            p["rps"] = [{"neg": rng.choice([p["dpb_1"] + 1, 16, 65, 5000]), "pos": 0, "written": rng.choice([0, 3, 70])}]
        elif c == 7:
            p["rps"] = [{"neg": 1, "pos": rng.choice([p["dpb_1"], 17, 5000]), "written": rng.choice([0, 3, 70])}]
        elif c == 8:
            p["n_rps_claimed"] = rng.choice([64, 65, 66, 1000, (1 << 31) - 2])
        elif c == 9:
            # predicted sets that grow beyond sps_max_dec_pic_buffering_minus1
            n = 2 + rng.below(6)
            p["rps"] = [{"neg": p["dpb_1"], "pos": 0}]
            for i in range(1, n):
                p["rps"].append({"pred": [rng.below(2) for _ in range(rps_pics(p["rps"], i - 1) + 1)],
                                 "sign": rng.below(2), "abs": rng.choice([0, 1, 40000])})
        elif c == 10:
            p["dpb_1"] = rng.choice([0, 0, 17, 70000])
        else:
            p["vui"] = h265_vui(rng)
            p["vui"]["ar"], p["vui"]["sar"] = rng.choice([0, 17, 254, 255]), [rng.choice([0, 1, 65535]), rng.choice([0, 1, 65535])]
            p["vui"]["timing"] = rng.choice([[0, 0], [0xFFFFFFFF, 1], [1, 0xFFFFFFFF]])
            p["vui"]["hrd"] = {"sub_pic": 1, "br_scale": 15, "cpb_scale": 15, "fixed": 0, "within": rng.below(2),
                               "low_delay": rng.below(2), "br": (1 << 32) - 2, "cpb": (1 << 32) - 2}
    return p


def h265_stream(rng, n_au=None, pre=None, lead3=False, small=False, extras=True, plain=False, sub=None, aud=True,
                wild_params=None, params=None, sps_switch=False):
    """An Annex B elementary stream: every access unit starts with an access
    unit delimiter; IDR access units carry VPS, SPS and PPS; the other
    pictures are P / B pictures; `pre` access units come before the first
    parameter sets.  Returns the octets, the range of each access unit (the
    generator's claim, re-derived by Nal265_Trace) and the SPS dimensions."""
    p = params if params is not None else h265_params(rng, plain)
    if sub is not None:                                    # directed: sub-layers with the given flags
        p["max_sub_1"], p["sub"] = len(sub), [list(x) for x in sub]
    if wild_params is not None:
        p = wild(rng, p, wild_params)
    n_au = n_au if n_au is not None else 1 + rng.below(5)
    pre = pre if pre is not None else (rng.below(3) if rng.chance(1, 4) else 0)
    stream, aus = [], []
    poc = 5
    force_idr = False
    # sps_switch: from some later IDR on, the SPS (same id) has other contents - another bit depth, same
    # picture size - while VPS and PPS stay octet for octet the same (a splice / a reconfigured encoder)
    switch_at = None
    p_sps = p
    if sps_switch:
        n_au = max(n_au, 4)
        switch_at = pre + 1 + rng.below(n_au - 2)

    def payload():
        n = rng.below(4 if small else 24)
        alpha = rng.choice([[0, 0, 1, 2, 3, 0xFF], list(range(256))])
        return [rng.choice(alpha) for _ in range(n)]

    def sc():
        return 3 if rng.chance(1, 3) else 4
    for i in range(pre + n_au):
        start = len(stream)
        first = start == 0
        idr = i >= pre and (i == pre or force_idr or i == switch_at or rng.chance(1, 4))
        force_idr = False
        if i == switch_at:
            p_sps = dict(p, depth=10 if p["depth"] == 8 else 8)
        if idr:
            typ, tid1, stype, poc = rng.choice([IDR_W_RADL, IDR_N_LP]), 1, 2, 0
        else:
            typ = rng.choice([TRAIL_R, TRAIL_R, TRAIL_N, TSA_N, RADL_N, RASL_R])
            tid1 = 1 + (rng.below(p["max_sub_1"] + 1) if typ != TRAIL_R else 0)
            stype = rng.choice([0, 1])
        # (the first NAL unit of an access unit has a 4-octet start code: B.2.2 zero_byte)
        sc1 = 3 if (first and lead3) else 4
        au = h265_aud(0 if idr else (1 if stype == 1 else 2), tid1, sc1) if aud else []
        if idr:
            au += h265_vps(p, sc() if au else sc1) + h265_sps(p_sps, sc()) + h265_pps(p, sc())
        if extras and rng.chance(1, 5):
            au += h265_sei(PREF_SEI, tid1, rng, sc() if au else sc1)
        first_vcl_sc = None if au else sc1
        nseg = 1 + (rng.below(3) if rng.chance(1, 3) else 0)
        nseg = min(nseg, ctbs(p))
        for k in range(nseg):
            au += h265_slice(p, typ, tid1, k == 0, k, stype, poc, payload(),
                             first_vcl_sc if (k == 0 and first_vcl_sc) else sc())
        if extras and rng.chance(1, 6):
            au += h265_sei(SUFF_SEI, tid1, rng, sc())
        if extras and rng.chance(1, 8):
            au += nal265(FD, tid1, [0xFF] * rng.below(4) + [0x80], sc())
        if extras and rng.chance(1, 10) and i + 1 >= pre:
            au += nal265(EOS, tid1, [], sc())              # end_of_seq_rbsp is empty: the next picture is an IDR
            force_idr = True
        if extras and rng.chance(1, 10) and i + 1 < pre + n_au:
            au += [0]                                      # trailing_zero_8bits (B.2.1)
        poc += 1
        stream += au
        aus.append([start, len(stream), 1 if idr else 0])
    feats = []
    if not aud:
        feats.append("no-access-unit-delimiters")
    if any(x[0] != x[1] for x in p["sub"]):
        feats.append("sub-layer-profile-and-level-flags-differ")
    if sps_switch:
        feats.append("sps-contents-change-with-unchanged-pps")
    # conformance window offsets (0, 1, 0, 1) in chroma sample units (7.4.3.2.1, Table 6-1)
    subw, subh = {0: (1, 1), 1: (2, 2), 2: (2, 1)}.get(p["chroma"], (1, 1))
    dims2 = [p["w"] - subw, p["h"] - subh] if p["crop"] else [p["w"], p["h"]]
    return {"stream": stream, "aus": aus, "dims": [p["w"], p["h"]], "dims2": dims2, "params": p, "feats": feats}


# ------------------------------------------------------------------ scripts
def framer_exe(st, cuts, rng, out, source, kind="h265", disc=None):
    """cuts: increasing offsets where the stream is cut into input buffers;
    disc: offset of the cut whose buffer carries the discontinuity flag."""
    stream = st["stream"]
    cmds = ["new " + out]
    last = 0
    for c in list(cuts) + [len(stream)]:
        if c > last:
            piece = stream[last:c]
            seg = rand_cuts(rng, len(piece), 3) if rng is not None and rng.chance(1, 4) else []
            cmds.append("%s %s %s" % ("feedd" if disc is not None and last == disc else "feed", hexs(piece), seg_str(seg)))
            last = c
    cmds.append("release")
    meta = {"k": kind, "stream": stream, "feats": st.get("feats", [])}
    if kind == "h265d":
        meta["aus"] = st["aus"]             # (for the tags of a key only: not given to the specification)
    if kind == "h265":
        meta.update({"aus": st["aus"], "dims": st["dims"], "dims2": st.get("dims2", st["dims"]), "out": out})
    return Exe(cmds, source, meta)


def corrupt(rng, s2):
    c = rng.below(5)
    if c == 0:
        for _ in range(1 + rng.below(6)):
            s2[rng.below(len(s2))] = rng.choice([0, 1, 3, 0xFF, rng.below(256)])
    elif c == 1:
        s2 = s2[:rng.below(len(s2)) + 1]
    elif c == 2:
        i = rng.below(len(s2))
        s2 = s2[:i] + [rng.choice([0, 0, 1, 0x40, 0x42, 0x44, 0x46, 0x26, 0x02, 0x4E, 1]) for _ in range(rng.below(12))] + s2[i:]
    elif c == 3:
        # one bit of a parameter set or slice header flipped (exp-Golomb codes change length)
        for _ in range(1 + rng.below(3)):
            i = rng.below(min(len(s2), 120))
            s2[i] ^= 1 << rng.below(8)
    else:
        s2 = [rng.choice([0, 0, 0, 1, 0x40, 0x42, 0x44, 0x46, 0x26, 0x28, 0x02, 0x4E, 0x01, 0xFF, rng.below(256)])
              for _ in range(rng.below(80))] or [0]
    return s2


def framer_executions(rng, quick):
    exes = []
    # directed: one stream, every single cut and a set of double cuts; whole; octet by octet
    st = h265_stream(vlib.Rng(5), n_au=3, pre=0, small=True, extras=False, plain=True)
    n = len(st["stream"])
    exes.append(framer_exe(st, [], None, "annexb", "directed whole"))
    exes.append(framer_exe(st, list(range(1, n)), None, "annexb", "directed octets"))
    exes.append(framer_exe(st, [a[0] for a in st["aus"][1:]], None, "annexb", "directed per access unit"))
    for c in range(1, n, 2 if quick else 1):
        exes.append(framer_exe(st, [c], None, "annexb", "directed cut"))
    for c in range(1, n - 1, 7 if quick else 1):
        for d in (1, 2, 3, 5):
            if c + d < n:
                exes.append(framer_exe(st, [c, c + d], None, "annexb", "directed cuts"))
    for out in ("len4", "len2", "nalu"):
        exes.append(framer_exe(st, [], None, out, "directed whole"))
        exes.append(framer_exe(st, [a[0] for a in st["aus"][1:]], None, out, "directed per access unit"))
    # a stream that begins with a 3-octet start code
    st3 = h265_stream(vlib.Rng(6), n_au=2, pre=0, lead3=True, small=True, extras=False, plain=True)
    exes.append(framer_exe(st3, [], None, "annexb", "directed lead3 whole"))
    for c in range(1, min(len(st3["stream"]), 14)):
        exes.append(framer_exe(st3, [c], None, "annexb", "directed lead3 cut"))
    # access units before the first parameter sets
    stp = h265_stream(vlib.Rng(7), n_au=2, pre=2, small=True, extras=False, plain=True)
    exes.append(framer_exe(stp, [], None, "annexb", "directed pre whole"))
    exes.append(framer_exe(stp, [a[0] for a in stp["aus"][1:]], None, "annexb", "directed pre per access unit"))
    # temporal sub-layers: every combination of sub_layer_profile_present_flag / sub_layer_level_present_flag
    for k, sub in enumerate(([(0, 0)], [(1, 1)], [(1, 0)], [(0, 1)], [(1, 0), (0, 1)])):
        sts = h265_stream(vlib.Rng(8 + k), n_au=2, pre=0, small=True, extras=False, plain=True, sub=sub)
        exes.append(framer_exe(sts, [a[0] for a in sts["aus"][1:]], None, "annexb", "directed sub-layers per access unit"))
    # slice_reserved_flag bits in front of slice_type (num_extra_slice_header_bits of the PPS)
    for k, extra in enumerate((1, 2, 1)):
        pr = h265_params(vlib.Rng(30 + k), plain=True)
        pr["extra"], pr["log2_poc"] = extra, 4 + k
        ste = h265_stream(vlib.Rng(30 + k), n_au=16, pre=0, small=True, extras=False, params=pr)
        exes.append(framer_exe(ste, [a[0] for a in ste["aus"][1:]], None, "annexb", "directed extra slice header bits"))
    # the contents of the SPS change (same id) at a later IDR while VPS and PPS are repeated unchanged
    for k in range(3):
        stw = h265_stream(vlib.Rng(40 + k), n_au=5, pre=0, small=True, extras=False, plain=True, sps_switch=True)
        exes.append(framer_exe(stw, [], None, "annexb", "directed sps switch whole"))
        exes.append(framer_exe(stw, [a[0] for a in stw["aus"][1:]], None, "annexb", "directed sps switch per access unit"))
    # no access unit delimiters: the access units begin with parameter sets, SEI or the first slice segment
    stn = h265_stream(vlib.Rng(13), n_au=4, pre=0, small=True, extras=False, plain=True, aud=False)
    exes.append(framer_exe(stn, [], None, "annexb", "directed no delimiter whole"))
    exes.append(framer_exe(stn, list(range(1, len(stn["stream"]))), None, "annexb", "directed no delimiter octets"))
    exes.append(framer_exe(stn, [a[0] for a in stn["aus"][1:]], None, "annexb", "directed no delimiter per access unit"))
    # random streams, several cuttings of each (the same stream must give the same access units)
    for _ in range(40 if quick else 1500):
        st = h265_stream(rng, aud=not rng.chance(1, 4), sps_switch=rng.chance(1, 6))
        n = len(st["stream"])
        # (Convert of NalOps over run-length strings is slow in TLC: fewer converted outputs in the quick tier)
        out = "annexb" if rng.chance(5 if quick else 2, 6 if quick else 3) else rng.choice(["len4", "len2", "nalu"])
        exes.append(framer_exe(st, [], rng, out, "random whole"))
        exes.append(framer_exe(st, [a[0] for a in st["aus"][1:]], rng, out, "random per access unit"))
        for _ in range(2):
            k = 1 + rng.below(8)
            cuts = sorted(set(1 + rng.below(n - 1) for _ in range(k)))
            exes.append(framer_exe(st, cuts, rng, out, "random cuts"))
        step = 1 + rng.below(5)
        exes.append(framer_exe(st, list(range(step, n, step)), rng, out, "random regular"))
    # a discontinuity somewhere: what is output still has stored offsets that delimit its NAL units
    for _ in range(40 if quick else 1200):
        st = h265_stream(rng, n_au=2 + rng.below(3), pre=0)
        n = len(st["stream"])
        cuts = sorted(set(1 + rng.below(n - 1) for _ in range(1 + rng.below(4))))
        exes.append(framer_exe(st, cuts, rng, "annexb", "random discontinuity", kind="h265d", disc=rng.choice(cuts)))
    # arbitrary / corrupt input: only 'no sanitizer report' is required
    # directed: a predicted reference picture set one picture larger than the decoded picture
    # buffer of the SPS; picture counts whose sum wraps; a decoded picture buffer far beyond the
    # 16 pictures of the standard
    for k, (dpb_1, rps, claimed) in enumerate((
            (2, [{"neg": 2, "pos": 0}, {"pred": [1, 1, 1], "sign": 1, "abs": 0}], None),
            (1, [{"neg": 1, "pos": 0}, {"pred": [1, 1], "sign": 0, "abs": 0}, {"pred": [1, 1, 1], "sign": 0, "abs": 0}], None),
            (3, [{"neg": 2, "pos": 1}, {"pred": [0, 1, 1, 1], "sign": 1, "abs": 2}, {"neg": 3, "pos": 0}], None),
            (3, [{"neg": 3, "pos": (1 << 32) - 2, "written": 4}], None),     # 3 + (2^32 - 2) wraps to 1
            ((1 << 31) - 2, [{"neg": 1, "pos": 0}], None),
            (70000, [{"neg": 1, "pos": 0}], 64))):
        pr = h265_params(vlib.Rng(20 + k), plain=True)
        pr["dpb_1"], pr["rps"] = dpb_1, rps
        if claimed:
            pr["n_rps_claimed"] = claimed
        std = h265_stream(vlib.Rng(20 + k), n_au=2, pre=0, small=True, extras=False, params=pr)
        exes.append(framer_exe({"stream": std["stream"]}, [], None, "annexb", "directed excessive parameter set", kind="h265raw"))
    for k in range(60 if quick else 2500):
        if k % 3 == 0:
            # parameter sets holding values outside the ranges of the standard, otherwise well formed
            # (every kind of excess in turn)
            st = h265_stream(rng, wild_params=k // 3, aud=not rng.chance(1, 4))
            s2 = list(st["stream"]) if rng.chance(2, 3) else corrupt(rng, list(st["stream"]))
        else:
            st = h265_stream(rng, aud=not rng.chance(1, 4), sps_switch=rng.chance(1, 6))
            s2 = corrupt(rng, list(st["stream"]))
        n = len(s2)
        cuts = sorted(set(1 + rng.below(n - 1) for _ in range(rng.below(5)))) if n > 1 else []
        exes.append(framer_exe({"stream": s2}, cuts, rng, rng.choice(["annexb", "annexb", "len4"]), "random corrupt",
                               kind="h265raw"))
    return exes


# ------------------------------------------------------------------ harness
def parse_framer_event(line, meta):
    tag = line.split(" ", 1)[0]
    if tag == "san":
        d = json.loads(line[4:])
        d["e"] = "Abort" if d.get("kind") == "assert" else "San"
        return [d]
    d = kv(line)
    if tag == "new":
        ev = {"e": "Reset", "k": meta["k"], "stream": meta["stream"]}
        if meta["k"] == "h265":
            ev.update({"aus": meta["aus"], "dims": meta["dims"], "dims2": meta.get("dims2", meta["dims"]), "out": meta["out"]})
        return [ev]
    if tag == "newr":
        if d["r"] != "0":
            raise vlib.ToolError("replay_nal_h265f: the framer refused its output or flow definition")
        return []
    if tag == "feed":
        return [{"e": "Feed", "n": int(d["n"]), "d": int(d["d"])}]
    if tag == "out":
        return [{"e": "Out", "size": int(d["size"]), "key": int(d["key"]),
                 "b": [int(d["b"][i:i + 2], 16) for i in range(0, len(d["b"]), 2)] if d["b"] != "-" else [],
                 "l": int_list(d["l"])}]
    if tag == "fd":
        return [{"e": "Fd", "def": d["def"], "hsize": int(d["hsize"]), "vsize": int(d["vsize"]), "enc": int(d["enc"])}]
    if tag == "ev":
        return [{"e": "Ev", "name": line.split()[1]}]
    if tag == "release":
        return []
    return None


def run_chunk(ctx, binp, exes, base_i, out, err):
    try:
        text = "".join(e.script(base_i + i) for i, e in enumerate(exes))
        r = ctx.run([binp], input=text, timeout=1500)
        if r.returncode != 0:
            raise vlib.ToolError("replay_nal_h265f failed rc=%d: %s | %s" % (
                r.returncode, (r.stderr or "")[-500:], " | ".join(r.stdout.splitlines()[-4:])[:600]))
        cur = None
        for line in r.stdout.splitlines():
            if line.startswith("exec "):
                cur = int(line.split()[1])
                out[cur] = []
            elif line == "end":
                if out[cur] and out[cur][-1]["e"] not in ("San", "Abort"):
                    out[cur].append({"e": "End"})
                cur = None
            elif line.startswith("err"):
                raise vlib.ToolError("replay_nal_h265f: " + line)
            elif cur is not None:
                evs = parse_framer_event(line, exes[cur - base_i].meta)
                if evs is None:
                    raise vlib.ToolError("replay_nal_h265f: unexpected output line: " + line[:200])
                out[cur] += evs
    except Exception as ex:      # re-raised in the main thread
        err.append(ex)


def execute(ctx, binp, exes, jobs=4):
    """Run the executions on the real framer (in parallel chunks)."""
    out, err = {}, []
    n = len(exes)
    if n == 0:
        return
    step = max(1, (n + jobs - 1) // jobs)
    ths = []
    for b in range(0, n, step):
        t = threading.Thread(target=run_chunk, args=(ctx, binp, exes[b:b + step], b, out, err))
        t.start()
        ths.append(t)
    for t in ths:
        t.join()
    if err:
        raise err[0] if isinstance(err[0], vlib.ToolError) else vlib.ToolError("harness driver: %r" % err[0])
    for i, e in enumerate(exes):
        if i not in out or not out[i] or out[i][0]["e"] != "Reset":
            raise vlib.ToolError("replay_nal_h265f: no output for execution %d (%s): %s" % (i, e.source, e.cmds[:3]))
        e.events = out[i]


def validate(ctx, exes, tag, jobs=2):
    """Nal265_Trace over the recorded executions (several TLC runs side by
    side).  Returns [(exe, rejected line in the execution)]."""
    if not exes:
        return []
    rej, err = [], []
    step = max(1, (len(exes) + jobs - 1) // jobs)

    def one(k, part):
        try:
            for idx, line, _ in ctx.validate_histories_1pass(TRACE[0], TRACE[1], [e.events for e in part],
                                                             tag="%s%d" % (tag, k)):
                rej.append((part[idx], line))
        except Exception as ex:
            err.append(ex)
    ths = [threading.Thread(target=one, args=(k, exes[b:b + step]))
           for k, b in enumerate(range(0, len(exes), step))]
    for t in ths:
        t.start()
    for t in ths:
        t.join()
    if err:
        raise err[0] if isinstance(err[0], vlib.ToolError) else vlib.ToolError("trace validation driver: %r" % err[0])
    return rej


# ------------------------------------------------- spec -> code (find calls)
def w32(c):
    return "%02x%02x%02x%02x" % tuple(c)


def scan_scripts(behs):
    """Every behaviour of Nal265Scan.tla as a script of fapp / ffind commands
    with the result lines the model predicts."""
    out, seen = [], set()
    for b in behs:
        key = (tuple(b["stream"]), tuple(b["cuts"]))
        if key in seen:
            continue
        seen.add(key)
        cmds, want = ["fnew"], []
        fed, ci = 0, 0
        for c in b["calls"]:
            while fed < c[0]:
                cut = b["cuts"][ci]
                ci += 1
                cmds.append("fapp %s -" % hexs(b["stream"][fed:cut]))
                fed = cut
            cmds.append("ffind")
            if c[1]:
                want.append("find r=1 au=%d c=%s s=%02x p=%02x" % (c[2], w32(c[3]), c[4], c[5]))
            else:
                want.append("find r=0 au=%d c=%s s=- p=-" % (c[2], w32(c[3])))
        out.append((cmds, want, b))
    return out


def replay_find(ctx, binp, behs, jobs=3):
    """spec -> code for Nal265Scan.tla: every call of upipe_h265f_find the
    model made is made on the real function, on the same buffers; result,
    au_size, scan context, start octet and previous octet are compared
    textually with the prediction."""
    scripts = scan_scripts(behs)
    if not scripts:
        raise vlib.ToolError("Nal265Scan emitted no behaviour")
    got, err = {}, []
    step = max(1, (len(scripts) + jobs - 1) // jobs)

    def one(b0):
        try:
            part = scripts[b0:b0 + step]
            text = "".join("exec %d\n%s\nend\n" % (b0 + i, "\n".join(c)) for i, (c, _, _) in enumerate(part))
            r = ctx.run([binp], input=text, timeout=900)
            if r.returncode != 0:
                raise vlib.ToolError("replay_nal_h265f (ffind) failed rc=%d: %s" % (r.returncode, (r.stderr or "")[-500:]))
            cur = None
            for line in r.stdout.splitlines():
                if line.startswith("exec "):
                    cur = int(line.split()[1])
                    got[cur] = []
                elif cur is not None and (line.startswith("find ") or line.startswith("san ")):
                    got[cur].append(line)
        except Exception as ex:
            err.append(ex)
    ths = [threading.Thread(target=one, args=(b0,)) for b0 in range(0, len(scripts), step)]
    for t in ths:
        t.start()
    for t in ths:
        t.join()
    if err:
        raise err[0] if isinstance(err[0], vlib.ToolError) else vlib.ToolError("ffind driver: %r" % err[0])
    ncalls, diffs = 0, []
    for i, (cmds, want, b) in enumerate(scripts):
        ncalls += len(want)
        if got.get(i) != want:
            k = next((j for j, (a, w) in enumerate(zip(got.get(i, []), want)) if a != w), min(len(got.get(i, [])), len(want)))
            diffs.append({"stream": b["stream"], "cuts": b["cuts"], "call": k + 1,
                          "real": (got.get(i, []) + ["(missing)"])[k] if k < len(got.get(i, [])) + 1 else "(missing)",
                          "predicted": want[k] if k < len(want) else "(none)"})
    return len(scripts), ncalls, diffs


# ------------------------------------------------------------------ verdicts
def multi_au_buffer(e, line):
    """some input buffer fed before the rejected event holds the starts of two access units"""
    pos = 0
    starts = [a[0] for a in e.meta.get("aus", [])]
    for x in e.events[:line]:
        if x["e"] == "Feed":
            if sum(1 for s0 in starts if pos <= s0 < pos + x["n"]) >= 2:
                return True
            pos += x["n"]
    return False


def framer_symptom(e, line):
    """(symptom, tags): what was rejected and the features of the execution
    the key is made of."""
    sym, tags = framer_symptom_(e, line)
    return sym, tuple(tags)


def framer_symptom_(e, line):
    evs = e.events
    ev = evs[line - 1] if 0 < line <= len(evs) else {"e": "?"}
    m = e.meta
    t = ev["e"]
    if t == "Out":
        if m["k"] == "h265d":
            sym = "stale-nal-offsets"
        else:
            units = [m["stream"][a[0]:a[1]] for a in m.get("aus", [])]
            sym = "stale-nal-offsets" if (m.get("out") == "annexb" and ev["b"] in units) else \
                  ("wrong-output" if m.get("out") == "annexb" else "wrong-converted-output")
    elif t == "End":
        sym = "access-unit-missing"
    elif t == "Ev":
        sym = "error-event"
    elif t == "Fd":
        sym = "flow-definition"
    elif t in ("San", "Abort"):
        sym = "%s:%s" % (ev.get("kind", "san"), ev.get("where", "?"))
    else:
        sym = t.lower()
    tags = []
    if m["k"] == "h265d":
        tags.append("after-a-discontinuity")
    if m["k"] == "h265raw":
        tags.append("corrupt-input")
    if multi_au_buffer(e, line):
        tags.append("several-access-units-in-one-buffer")
    aus = m.get("aus", [])
    if aus and aus[0][2] == 0 and any(a[2] for a in aus):
        tags.append("after-undecodable-access-units")
    if m["stream"][:3] == [0, 0, 1]:
        tags.append("stream-begins-with-3-octet-start-code")
    tags += m.get("feats", [])
    return sym, tags


def variants(e):
    """The same stream fed in simpler ways (one access unit per buffer, whole,
    the same cuts), output in Annex B: the first one that is rejected names
    the violation."""
    m = e.meta
    st = {"stream": m["stream"], "aus": m["aus"], "dims": m["dims"], "dims2": m.get("dims2", m["dims"]),
          "feats": m.get("feats", [])}
    v = [framer_exe(st, [a[0] for a in m["aus"][1:]], None, "annexb", e.source + " (one access unit per buffer)"),
         framer_exe(st, [], None, "annexb", e.source + " (whole)")]
    if m["out"] != "annexb":
        cuts, pos = [], 0
        for c in e.cmds:
            if c.startswith("feed"):
                pos += len(c.split()[1]) // 2 if c.split()[1] != "-" else 0
                cuts.append(pos)
        v.append(framer_exe(st, cuts[:-1], None, "annexb", e.source + " (Annex B output)"))
    return v


# symptoms of one family are consequences of each other (wrong stored offsets make
# the conversion fail or the framer put parameter sets in front of the output)
FAMILY = {"stale-nal-offsets": "output", "wrong-output": "output", "wrong-converted-output": "output",
          "error-event": "output"}


def judge(ctx, binp, rejected):
    for e, line in rejected:
        if line == 1:
            raise vlib.ToolError("generator and specification disagree on the access units of a stream "
                                 "(Reset rejected): %s" % json.dumps(e.events[0])[:600])
    if not rejected:
        return
    cands = []                                  # (exe, line)
    # the two smallest strict executions of every first-level (symptom, tags)
    first = {}
    for e, l in sorted([(e, l) for e, l in rejected if e.meta["k"] == "h265"],
                       key=lambda x: (len(x[0].meta["stream"]), len(x[0].cmds))):
        g = first.setdefault(framer_symptom(e, l), [])
        if len(g) < 2:
            g.append((e, l))
    pick = [x for k in sorted(first, key=lambda k: (len(k[1]), k)) for x in first[k]][:48]
    # the simplest feeding of the same stream that is still rejected, provided it
    # needs no feature the original execution did not have (another defect may
    # reject the simpler feeding for its own reasons)
    vs = [(e, l, variants(e)) for e, l in pick]
    flat = [x for _, _, v in vs for x in v]
    if flat:
        execute(ctx, binp, flat, jobs=3)
        rj = {id(x): ln for x, ln in validate(ctx, flat, "var", jobs=2)}
        for e, l, v in vs:
            tags0 = set(framer_symptom(e, l)[1])
            hit = next((x for x in v if id(x) in rj and set(framer_symptom(x, rj[id(x)])[1]) <= tags0), None)
            cands.append((hit, rj[id(hit)]) if hit is not None else (e, l))
    other = sorted([(e, l) for e, l in rejected if e.meta["k"] != "h265"],
                   key=lambda x: (len(x[0].meta["stream"]), len(x[0].cmds)))
    cands += other
    # one representative per key; a key whose tags include those of another key
    # with a symptom of the same family says nothing new
    groups = {}
    for e, l in cands:
        sym, tags = framer_symptom(e, l)
        groups.setdefault((sym, tags), []).append((e, l))
    keys = sorted(groups, key=lambda k: (len(k[1]), k))
    kept = []
    for k in keys:
        if any(FAMILY.get(k2[0], k2[0]) == FAMILY.get(k[0], k[0]) and set(k2[1]) < set(k[1]) for k2 in kept):
            continue
        kept.append(k)
    reps = []
    for k in kept:
        lst = sorted(groups[k], key=lambda x: (len(x[0].meta["stream"]), len(x[0].cmds)))
        e, l = lst[0]
        reps.append((k, Exe(e.cmds, e.source, e.meta), len(lst), e, l))
    # reproduce: same scripts, fresh process, fresh TLC run (one for all)
    execute(ctx, binp, [a for _, a, _, _, _ in reps], jobs=2)
    r2 = {id(x): ln for x, ln in validate(ctx, [a for _, a, _, _, _ in reps], "re", jobs=1)}
    for k, again, n, e0, l0 in reps:
        if id(again) not in r2:
            base.not_reproduced(ctx, e0, l0, again)
            continue
        line = r2[id(again)]
        sym, tags = framer_symptom(again, line)
        key = ";".join(["h265f", sym] + list(tags))
        ev = again.events[line - 1]
        what = "%s: event %d %s of the real H.265 framer is rejected by Nal265_Trace (stream of %d octets, access units %s; script: %s)" % (
            key, line, json.dumps(ev)[:400], len(again.meta["stream"]), again.meta.get("aus"),
            "; ".join(again.cmds)[:700])
        obj = again.store()
        obj.update({"events": again.events, "rejected_line": line, "executions_rejected_with_this_key": n})
        ctx.violation(key, what, obj)


def corrupted_copies(exes, rejected):
    """Vacuity guard of the trace specification: accepted executions with one
    recorded field altered; every one of them must be rejected."""
    bad = set(id(e) for e, _ in rejected)
    out = []

    def clone(e, name, fn):
        evs = json.loads(json.dumps(e.events))
        fn(evs)
        c = Exe(e.cmds, "corrupted " + name, e.meta)
        c.events = evs
        out.append(c)
    for e in exes:
        if id(e) in bad or e.meta["k"] != "h265" or any(ev["e"] in ("San", "Abort") for ev in e.events):
            continue
        outs = [i for i, ev in enumerate(e.events) if ev["e"] == "Out"]
        if len(outs) < 2 or not e.events[outs[0]]["l"] or len(e.meta["aus"]) < 2:
            continue
        o0, o1 = outs[0], outs[-1]
        clone(e, "Out.b", lambda evs: evs[o0].__setitem__("b", [evs[o0]["b"][0] ^ 1] + evs[o0]["b"][1:]))
        clone(e, "Out.l", lambda evs: evs[o0].__setitem__("l", [evs[o0]["l"][0] + 1] + evs[o0]["l"][1:]))
        clone(e, "Out dropped", lambda evs: evs.__delitem__(o1))
        clone(e, "Outs swapped", lambda evs: (evs.__setitem__(o0, evs[o1]), evs.__setitem__(o1, e.events[o0])))
        fd = next((i for i, ev in enumerate(e.events) if ev["e"] == "Fd"), None)
        if fd is not None:
            clone(e, "Fd.hsize", lambda evs: evs[fd].__setitem__("hsize", evs[fd]["hsize"] + 8))
        # the generator's access units moved by one octet: the derivation of Nal265_Trace disagrees
        clone(e, "Reset.aus", lambda evs: evs[0].__setitem__(
            "aus", [[evs[0]["aus"][0][0], evs[0]["aus"][0][1] + 1, evs[0]["aus"][0][2]],
                    [evs[0]["aus"][1][0] + 1] + evs[0]["aus"][1][1:]] + evs[0]["aus"][2:]))
        break
    for e in exes:
        if id(e) in bad or e.meta["k"] != "h265d":
            continue
        outs = [i for i, ev in enumerate(e.events) if ev["e"] == "Out" and ev["l"]]
        if outs:
            o0 = outs[0]
            clone(e, "Out.l (discontinuity)", lambda evs: evs[o0].__setitem__("l", [evs[o0]["l"][0] + 1] + evs[o0]["l"][1:]))
            break
    return out


# ----------------------------------------------------------------------- run
SCAN_COV = ["Chunk", "FindHit", "FindMiss", "GiveBack", "Finish"]
NEG = ["neg_lead", "neg_noback", "neg_prev5", "neg_ctx"]


def run_models(ctx, jobs, par=3):
    res, err = {}, []
    sem = threading.Semaphore(par)

    def one(j):
        with sem:
            try:
                res[j["cfg"]] = ctx.tlc("Nal265Scan", "MCNal265Scan_%s.cfg" % j["cfg"], workers=j.get("workers", 1),
                                        coverage=False, heap=j.get("heap", "3g"), timeout=j.get("timeout", 600),
                                        count=False, name="Nal265Scan" + j["cfg"])
            except Exception as ex:
                err.append(ex)
    ths = [threading.Thread(target=one, args=(j,)) for j in jobs]
    for t in ths:
        t.start()
    for t in ths:
        t.join()
    if err:
        raise err[0] if isinstance(err[0], vlib.ToolError) else vlib.ToolError("TLC driver: %r" % err[0])
    return res


def run_part(ctx):
    """Stage 3 of C17 (called by checks/c17.py at the end of its run())."""
    base.deep_java_stack()
    quick = ctx.quick
    t0 = time.time()
    tm = ctx.extra.setdefault("h265_seconds", {})
    fside = {"err": [], "exes": [], "rej": [], "bin": None}

    def framer_to_spec():
        try:
            fside["bin"] = build(ctx)
            tm["build"] = round(time.time() - t0, 1)
            exes = framer_executions(vlib.Rng(ctx.seed + 26500), quick)
            execute(ctx, fside["bin"], exes, jobs=3)
            fside["exes"] = exes
            tm["framer_executed"] = round(time.time() - t0, 1)
            # (interleaved: the TLC runs side by side get executions of every class)
            nj = 2 if quick else 4
            fside["rej"] = validate(ctx, [e for k in range(nj) for e in exes[k::nj]], "h5", jobs=nj)
            tm["framer_validated"] = round(time.time() - t0, 1)
        except Exception as ex:
            fside["err"].append(ex)
    fs = threading.Thread(target=framer_to_spec)
    fs.start()

    # ---- 1. model checking (the vacuity guard is fed from the ghost variable
    # `acts` every emitted behaviour carries, as in checks/c17.py)
    pos = [dict(cfg="q", workers=2), dict(cfg="any", workers=1)]
    if not quick:
        pos += [dict(cfg="t", workers=4, heap="8g", timeout=1500), dict(cfg="t2", workers=4, heap="6g", timeout=1500)]
    neg = [dict(cfg=c) for c in NEG]
    try:
        res = run_models(ctx, pos + neg, par=3)
        tm["models"] = round(time.time() - t0, 1)
    finally:
        fs.join()
    if fside["err"]:
        ex = fside["err"][0]
        raise ex if isinstance(ex, vlib.ToolError) else vlib.ToolError("H.265 framer driver: %r" % ex)
    for j in pos:
        r = res[j["cfg"]]
        ctx.model_must_hold(r, "Nal265Scan/" + j["cfg"])
        base.coverage_from_acts(r)
        ctx.require_coverage(r, SCAN_COV)
        ctx.states += r.distinct
        ctx.transitions += r.generated
    for j in neg:
        r = res[j["cfg"]]
        if not r.violated:
            raise vlib.ToolError("vacuity: negative configuration Nal265Scan/%s not rejected by TLC" % j["cfg"])
        ctx.extra.setdefault("negative_configurations", {})["h265_" + j["cfg"]] = r.violated
    binp = fside["bin"]

    # ---- 2. spec -> code: every call of upipe_h265f_find of the models, in lock step
    behs = [b for j in pos for b in res[j["cfg"]].beh()]
    nb, ncalls, diffs = replay_find(ctx, binp, behs)
    tm["find_replayed"] = round(time.time() - t0, 1)
    ctx.traces += nb
    ctx.extra["h265_find_behaviours_replayed"] = nb
    ctx.extra["h265_find_calls_replayed"] = ncalls
    ctx.extra["h265_find_behaviours_differing"] = len(diffs)
    if diffs:
        ctx.extra["h265_first_find_difference"] = diffs[0]

    # ---- 3. code -> spec: the framer executions judged
    fex, rej = fside["exes"], fside["rej"]
    ctx.evaluations += len(fex) + nb
    ctx.extra["h265_framer_executions"] = len(fex)
    ctx.extra["h265_framer_executions_by_kind"] = {k: sum(1 for e in fex if e.meta["k"] == k) for k in KINDS}
    ctx.extra["h265_framer_input_buffers"] = sum(1 for e in fex for ev in e.events if ev["e"] == "Feed")
    ctx.extra["h265_framer_access_units_output"] = sum(1 for e in fex for ev in e.events if ev["e"] == "Out")
    ctx.extra["h265_framer_executions_rejected"] = len(rej)
    # what the statement is silent about, counted: first outputs that carry undecodable
    # access units in front of the first decodable one
    ctx.extra["h265_first_outputs_with_undecodable_data_in_front"] = sum(
        1 for e in fex if e.meta["k"] == "h265" and e.meta["out"] == "annexb" and e.meta["aus"][0][2] == 0
        for ev in [next((x for x in e.events if x["e"] == "Out"), None)] if ev is not None
        and ev["b"] not in [e.meta["stream"][a[0]:a[1]] for a in e.meta["aus"]])
    for e in fex:
        if e.source == "random cuts" and len(e.events) < 30:
            ctx.sample({"source": "H.265 framer, seed=%d" % ctx.seed, "script": [c[:120] for c in e.cmds[:6]],
                        "events": [json.loads(json.dumps(ev)[:300]) if len(json.dumps(ev)) < 300 else {"e": ev["e"]}
                                   for ev in e.events[1:10]]}, limit=6)
            break
    cor = corrupted_copies(fex, rej)
    if len(cor) >= 7:
        rc = validate(ctx, cor, "h5vac", jobs=1)
        ctx.traces -= len(cor)
        if len(rc) != len(cor):
            acc = [c.source for c in cor if c not in [e for e, _ in rc]]
            raise vlib.ToolError("vacuity: Nal265_Trace accepted corrupted executions: %s" % acc)
        ctx.extra.setdefault("corrupted_traces_rejected", [])
        ctx.extra["corrupted_traces_rejected"] += ["h265 " + c.source for c in cor]
    elif not rej:
        raise vlib.ToolError("vacuity: no accepted H.265 framer execution to corrupt")
    tm["vacuity"] = round(time.time() - t0, 1)
    judge(ctx, binp, rej)
    tm["end"] = round(time.time() - t0, 1)
    if diffs and not ctx.violations and not ctx.known_hits:
        ctx.extra["h265_model_drift"] = True
        ctx.notes.append("the real upipe_h265f_find differs from the prediction of Nal265Scan.tla without any framer execution being rejected")
    ctx.assumptions += [
        "stage 3 (H.265 framer, Annex B input): the elementary streams come from the reference bit-writer of checks/c17_h265.py (VPS / SPS / PPS per ITU-T H.265 7.3.2 with 1-3 temporal sub-layers, 0-2 short-term reference picture sets, no scaling lists, no PCM, VUI absent or minimal; access unit delimiter in front of every access unit; IDR access units carry VPS, SPS and PPS and are the only intra pictures; 1-3 slice segments per picture; prefix / suffix SEI, filler data, end of sequence NAL units); Nal265_Trace derives the access units from the octets (7.4.2.4.4) and compares them with the generator's; the shim harness/shim/bitstream/itu/h265.h replaces biTStream",
        "H.265: the last access unit is expected when the framer is released; the access units before the first parameter sets may be skipped, output, or left in front of the first decodable access unit (what upipe_h265f does); with a discontinuity flag on an input buffer only 'the stored offsets delimit the NAL units of every output' is required; timestamps, picture attributes and the other flow definition attributes are not judged; on corrupt streams only 'no sanitizer report' is required; -fsanitize=vla-bound is off (the framer declares variable length arrays of zero elements on every ordinary stream; nothing is accessed through them)",
        "Nal265Scan: strings in which a start code is followed by a NAL unit header whose second octet is 00 (nuh_temporal_id_plus1 = 0), or by the header octet 00 and a payload beginning with 00 01 (no valid slice segment header), are outside the model: the framer does not pass the second header octet through the scanner",
    ]
    ctx.trusted += ["harness/replay_nal_h265f.c (command interpreter)", "harness/shim/bitstream/itu/h265.h (clean-room shim)",
                    "checks/c17_h265.py reference bit-writer (its access unit boundaries are re-derived by Nal265_Trace)"]


def run(ctx):
    """bin/check C17_H265: stage 3 alone."""
    run_part(ctx)
    ctx.exhaustive = True
    ctx.trusted += ["TLC", "gcc AddressSanitizer / UndefinedBehaviorSanitizer"]


def replay(ctx, rp):
    """bin/check C17 --replay file (delegated by checks/c17.py for k = h265*)
    or bin/check C17_H265 --replay file: re-run the stored script."""
    base.deep_java_stack()
    r = rp["replay"]
    binp = build(ctx)
    e = Exe(r["script"], "replay", r["meta"])
    execute(ctx, binp, [e], jobs=1)
    rej = validate(ctx, [e], "replay", jobs=1)
    if rej:
        line = rej[0][1]
        print("VIOLATION property=C17 replay reproduced: event %d %s" % (line, json.dumps(e.events[line - 1])[:600]))
        return 1
    print("OK property=C17 replay accepted")
    return 0
