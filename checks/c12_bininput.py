"""C12, second stage: a bin pipe whose first inner pipe is replaced or dropped while requests are registered
on it (include/upipe/upipe_helper_bin_input.h: store_bin_input and the proxies of the bin).  Called from
checks/c12.py.

spec/BinInput.tla (exhaustive: 2-3 requests, 2-3 inner pipes that hold or answer at once, a probe that answers
or not, application references dropped at any moment; two deliberately broken variants must be rejected)
states Placement (the registered requests are at the current first inner and nowhere else), NoStaleAnswer and
NoDeadWithRegs.  harness/replay_bininput.c builds the bin from the repository's helper macros only and records
what the inner pipes, the probe and the requesters see; directed and seeded random command sequences are
validated by spec/BinInput_Trace.tla."""
import json
import vlib

SRC = ["replay_bininput.c", "lib/upipe/uprobe.c"]
ENV = {"ASAN_OPTIONS": "detect_leaks=1:abort_on_error=0:exitcode=97",
       "UBSAN_OPTIONS": "print_stacktrace=1:halt_on_error=1:exitcode=98"}
DIRECTED = [
    # (answering mask, probe answers, commands)
    # the inner pipeline is dropped and respawned while the application still holds the old one (autof, ffmt ...)
    (0, 0, ["store 0", "reg 0", "reg 1", "store -1", "provide 0 0", "store 1", "provide 0 1", "provide 1 0", "unreg 0",
            "provide 0 0", "provide 1 0", "provide 1 1", "drop 0", "store -1", "drop 1"]),
    # the bin holds the last reference on the pipe it drops
    (0, 0, ["store 0", "drop 0", "reg 0", "reg 2", "store -1", "store 1", "provide 1 2", "unreg 2", "store 2", "provide 1 0",
            "provide 2 0"]),
    # registered before there is any inner: thrown to the probe, then re-issued
    (2, 1, ["reg 0", "store 0", "reg 1", "store 1", "unreg 0", "store 0", "provide 0 1", "provide 1 1", "store -1", "reg 0",
            "unreg 1", "store 2", "provide 2 0"]),
    (7, 0, ["reg 0", "reg 1", "reg 2", "store 0", "store 1", "store 2", "store -1", "unreg 1", "store 0", "drop 1", "drop 2"]),
]


def gen(rng, n):
    first, held, dead, regd = -1, set(range(3)), set(), set()
    out = []
    for _ in range(n):
        c = rng.below(100)
        if c < 20:
            cand = [r for r in range(3) if r not in regd]
            if cand:
                r = rng.choice(cand)
                regd.add(r)
                out.append("reg %d" % r)
        elif c < 32:
            if regd:
                r = rng.choice(sorted(regd))
                regd.discard(r)
                out.append("unreg %d" % r)
        elif c < 62:
            cand = [x for x in sorted(held) if x != first] + ([-1] if first >= 0 else [])
            if cand:
                x = rng.choice(cand)
                if first >= 0 and first not in held:
                    dead.add(first)
                first = x
                out.append("store %d" % x)
        elif c < 90:
            cand = [i for i in range(3) if i not in dead]
            if cand:
                out.append("provide %d %d" % (rng.choice(cand), rng.below(3)))
        else:
            if held:
                i = rng.choice(sorted(held))
                held.discard(i)
                if i != first:
                    dead.add(i)
                out.append("drop %d" % i)
    return out


def execute(ctx, binp, scripts, timeout=600):
    text = "".join("exec %d %d %d\n%s\n" % (i, m, p, "\n".join(s)) for i, (m, p, s) in enumerate(scripts))
    r = ctx.run([binp], input=text, timeout=timeout, env=ENV)
    hs = []
    for line in r.stdout.splitlines():
        if not line.startswith("{"):
            continue
        e = json.loads(line)
        if e["e"] == "Reset":
            hs.append([e])
        elif hs:
            hs[-1].append(e)
    return r, hs


def crash_line(stderr):
    for l in (stderr or "").splitlines():
        if l.startswith("SUMMARY:") or "runtime error:" in l or "Assertion" in l:
            return l.strip()
    return "no sanitizer summary"


def text_of(sc):
    return "mask=%d probe=%d: %s" % (sc[0], sc[1], "; ".join(sc[2]))


def run_part(ctx):
    cfgs = ["MCBinInput.cfg"] if ctx.quick else ["MCBinInput.cfg", "MCBinInput_t.cfg"]
    for cfg in cfgs:
        res = ctx.tlc("BinInput", cfg, workers=4, coverage=True)
        ctx.model_must_hold(res, "BinInput/" + cfg)
        ctx.require_coverage(res, ["ActReg", "ActUnreg", "ActStore", "ActProvide", "ActDrop"])
    for v in ("store_null_keeps", "no_reissue"):
        res = ctx.tlc("BinInput", "MCBinInput_neg_%s.cfg" % v, workers=1, count=False)
        if "Placement" not in res.violated:
            raise vlib.ToolError("vacuity: the broken variant %s of the bin is not rejected (%s)" % (v, res.violated))
    binp = ctx.cc("replay_bininput", SRC)
    rng = vlib.Rng(ctx.seed + 1212)
    scripts = [(m, p, list(s)) for m, p, s in DIRECTED] + \
              [(rng.below(8), rng.below(2), gen(rng, 8 + rng.below(40))) for _ in range(400 if ctx.quick else 30000)]
    r, hs = execute(ctx, binp, scripts)
    if r.returncode != 0 or len(hs) != len(scripts):
        # the harness died: the execution it was in is run alone; a death that repeats is the code's
        k = max(0, len(hs) - 1)
        if r.returncode == 0 or k >= len(scripts):
            raise vlib.ToolError("replay_bininput: %d executions for %d scripts (rc=%d)" % (len(hs), len(scripts), r.returncode))
        r2, h2 = execute(ctx, binp, [scripts[k]], timeout=60)
        if r2.returncode == 0:
            r2, h2 = execute(ctx, binp, scripts[max(0, k - 1):k + 1], timeout=60)
        if r2.returncode == 0:
            raise vlib.ToolError("replay_bininput died (rc=%d, %s) but not when the execution is run alone: %s"
                                 % (r.returncode, crash_line(r.stderr), text_of(scripts[k])))
        done = len(h2[-1]) - 1 if h2 else 0
        key = "bin_input;crash;%s" % crash_line(r2.stderr).split(" in ")[0].replace("SUMMARY: ", "")
        ctx.violation(key, "a bin pipe made of UPIPE_HELPER_BIN_INPUT: the real code is stopped by the sanitizer (%s) after %d "
                      "commands of the legal sequence %s" % (crash_line(r2.stderr), done, text_of(scripts[k])),
                      {"stage": "bininput", "script": list(scripts[k]), "stderr": (r2.stderr or "")[-3000:]})
        return
    # what the scripts asked for (counted on the commands, not on what the code did)
    swapped = dropped = 0
    for h in hs:
        regd, first = set(), "none"
        for a in h[1:]:
            if a["e"] == "Reg":
                regd.add(a["r"])
            elif a["e"] == "Unreg":
                regd.discard(a["r"])
            elif a["e"] == "Store":
                if first != "none" and regd:
                    if a["x"] == "none":
                        dropped += 1
                    else:
                        swapped += 1
                first = a["x"]
    answered = sum(1 for h in hs for a in h if a["e"] == "Provide" and a["evs"])
    if not swapped or not dropped:
        raise vlib.ToolError("vacuity: first inner replaced with requests registered %d times, dropped %d times, answers %d"
                             % (swapped, dropped, answered))
    ctx.extra["bin_first_inner"] = {"executions": len(hs), "events": sum(len(h) for h in hs),
                                    "first_inner_replaced_with_requests_registered": swapped,
                                    "first_inner_dropped_with_requests_registered": dropped, "answers_delivered": answered}
    # vacuity of the validation: an execution in which one withdrawal was not seen must be rejected
    fake = None
    for h in hs:
        for k, a in enumerate(h):
            if a["e"] == "Store" and any(e[0] == "sunreg" for e in a["evs"]):
                fake = [dict(x) for x in h]
                evs = list(a["evs"])
                evs.remove([e for e in evs if e[0] == "sunreg"][0])
                fake[k]["evs"] = evs
                break
        if fake:
            break
    rej = ctx.validate_histories_1pass("BinInput_Trace", "BinInput_Trace.cfg", hs + ([fake] if fake else []), tag="bininput")
    ctx.traces -= 1 if fake else 0
    # (no execution shows a withdrawal only when the code under test makes none: the rejections below say so)
    if fake and not any(i == len(hs) for i, _, _ in rej):
        raise vlib.ToolError("vacuity: an execution with one withdrawal removed was accepted by BinInput_Trace")
    ctx.evaluations += sum(len(h) for h in hs)
    seen = set()
    for idx, line, inv in sorted(rej, key=lambda x: len(scripts[x[0]][2]) if x[0] < len(scripts) else 0):
        if idx == len(hs):
            continue
        h = hs[idx]
        ev = h[line - 1] if 0 < line <= len(h) else {}
        key = "bin_input;%s;%s" % (ev.get("e", "?"), "to-none" if ev.get("x") == "none" else "events")
        if key in seen:
            continue
        seen.add(key)
        r2, h2 = execute(ctx, binp, [scripts[idx]], timeout=60)
        if not h2 or not ctx.validate_histories_1pass("BinInput_Trace", "BinInput_Trace.cfg", [h2[0]], tag="bininputre"):
            raise vlib.ToolError("rejected execution did not reproduce: %s" % text_of(scripts[idx]))
        ctx.traces -= 1
        ctx.violation(key, "a bin pipe made of UPIPE_HELPER_BIN_INPUT: at command %d (%s) of %s the inner pipes / the probe / "
                      "the requesters saw %s, which is not what BinInput allows (registered requests withdrawn from the old first "
                      "inner, re-issued to the new one, no answer from a pipe that is not the first inner)"
                      % (line - 1, ev.get("e"), text_of(scripts[idx]), json.dumps(ev.get("evs"))),
                      {"stage": "bininput", "script": list(scripts[idx]), "trace": h})


def replay(ctx, rp):
    binp = ctx.cc("replay_bininput", SRC)
    sc = rp["script"]
    r, hs = execute(ctx, binp, [(sc[0], sc[1], sc[2])], timeout=60)
    if r.returncode != 0:
        print("VIOLATION property=C12 replay reproduced: %s" % crash_line(r.stderr))
        return 1
    rej = ctx.validate_histories_1pass("BinInput_Trace", "BinInput_Trace.cfg", [hs[0]], tag="bininputrp")
    print("VIOLATION property=C12 replay reproduced" if rej else "replay: accepted")
    return 1 if rej else 0
