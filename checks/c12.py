"""C12 - requests travel downstream, answers travel back, surviving re-plumbing.

1. TLC checks spec/Requests.tla exhaustively on the scenarios of
   spec/MCRequests.tla (chains of pipes that use upipe_helper_output.h, pipes
   that intercept request types, pipes with requests of their own through
   upipe_helper_uref_mgr / ubuf_mgr / uclock / flow_format, real provider probes,
   holding / throwing / refusing sinks, a bin pipe, and chains that cross a
   queue sink -> queue source pair with the two event loops as explicit actions):
   the invariants PathInv (forwarded down, re-plumbed, registered downstream of
   the queue when quiescent) and the per-command properties
   NoCallbackAfterUnregister, NoSinkFreedWithRegs, Reaches*; coverage of every
   action; every transition of the state graph is printed (EDGE lines: command
   and the events the specification predicts).
2. Negative configurations (deliberately broken variants) must be rejected.
3. A model of what the repository's bin pipes do with an unanswered request
   (variant "binfall") is checked; TLC's counterexample is replayed on the real
   upipe_ts_align and reported only if the real code follows it.
4. spec -> code: the state graph is covered by tours (every transition at least
   once) executed by harness/pipe_driver.c + harness/pd_ext_c12.c on the real
   pipes; after every command the observed events are compared with TLC's
   prediction (multiset of sink registrations / call-backs / sink releases =
   verdict; order, proxy depths, provide_request events, return codes = model
   drift only).
5. code -> spec: the executions of the tours (a sample in the quick tier) and
   seeded random command scripts are validated by spec/Requests_Trace.tla.
Every disagreement is re-run (and shrunk) before it is reported.
"""
import json, os, re
import vlib
from checks import pipecommon, c12_bininput, c12_ubufreq

LEVEL = "model_checking"

EXTRA = ["vloop.c", "lib/upipe/uprobe_upump_mgr.c", "lib/upipe/uprobe_uref_mgr.c",
         "lib/upipe/uprobe_ubuf_mem.c", "lib/upipe/uprobe_uclock.c", "lib/upipe/uprobe_prefix.c",
         "lib/upipe/ubuf_mem.c", "lib/upipe/ubuf_pic.c", "lib/upipe/ubuf_pic_common.c",
         "lib/upipe/ubuf_pic_mem.c", "lib/upipe/ubuf_sound_common.c", "lib/upipe/ubuf_sound_mem.c",
         "lib/upipe-ts/upipe_ts_align.c", "lib/upipe-ts/upipe_ts_sync.c", "lib/upipe-ts/upipe_ts_check.c"]
ACTIONS = ["ActReg", "ActUnreg", "ActRequire", "ActSetOut", "ActProvide", "ActRel"]
QACTIONS = ["RunA", "RunB", "ActAttach"]
NEG = [("setout_keeps_old", "PathInv"), ("setout_no_reissue", "PathInv"),
       ("unreg_first_proxy", "PathInv"), ("death_keeps_regs", "StepNoSinkFreedWithRegs"),
       ("oob_no_check", "StepNoCallbackAfterUnregister"), ("setout_one_pass", "OneEntry"),
       ("unreg_full_keeps", "StepNoCallbackAfterUnregister")]
OOB = 255        # length of the out-of-band queues of upipe_queue_source.c
TYPEIDX = {"uref_mgr": 0, "flow_format": 1, "ubuf_mgr": 2, "uclock": 3, "sink_latency": 4}
ENV = {"ASAN_OPTIONS": "detect_leaks=1:abort_on_error=0:exitcode=97",
       "UBSAN_OPTIONS": "print_stacktrace=1:halt_on_error=1:exitcode=98"}
NONE = "-"
BASEV = [0]      # violations reported before the replay phases (the bin counterexample): one more is reported


def build(ctx, san="asan", out="pipe_driver_c12"):
    """The shared pipe driver with this check's extension (source list from
    pipecommon; compiled in parallel, then linked - the single gcc command of
    pipecommon.build_driver takes 40 s of the quick tier's 90)."""
    srcs = pipecommon.driver_sources(["queue_sink", "queue_source", "queue"], EXTRA, ["pd_ext_c12.c"])
    objs = ctx.cc_objs(srcs, flags=["-I", vlib.HARNESS + "/shim"], san=san, tag="o_" + out)
    return ctx.cc(out, objs, san=san, flags=["-Wl,--wrap=upipe_queue_request_alloc"])


# ------------------------------------------------------------ scenario -> harness
def prologue(c):
    """Harness commands that build the pipes, sinks and requests of scenario c."""
    lines = []
    order = [n for n in c["nodes"] if c["kind"][n] == "qsrc"] + \
            [n for n in c["nodes"] if c["kind"][n] != "qsrc"]
    for n in order:
        k, impl = c["kind"][n], c["impl"][n]
        if impl == "inner":
            continue
        if k == "sink" and impl == "sink":
            lines += ["sink %s" % n, "reqmode %s %s" % (n, c["mode"][n])]
        elif k == "sink":
            lines += ["new %s %s" % (n, impl), "opt %s set reqmode %s" % (n, c["mode"][n])]
        elif impl == "ts_align":
            lines += ["new %s ts_align" % n, "setfd %s bmpegts" % n]
        elif k == "qsrc":
            lines += ["new %s qsrc" % n, "getout %s" % n]
        else:
            lines += ["new %s %s" % (n, impl)]
    for n in c["nodes"]:
        for t in sorted(c["prov"][n]):
            lines.append("probeprov %s %s on" % (n, t))
    for r in c["reqs"]:
        if c["owner"][r] == NONE:
            lines.append("req %s %s" % (r, c["rtype"][r]))
            if r in c.get("oneshot", []):
                lines.append("oneshot %s 1" % r)
        else:
            lines.append("ownreq %s %s %s" % (r, c["rtype"][r], c["owner"][r]))
    return lines


def cmd_line(c, cmd):
    op, a, b = cmd["op"], cmd["a"], cmd["b"]
    if op in ("reg", "unreg"):
        return "x%s %s %s" % (op, a, b)
    if op == "require":
        return "require %s %s" % (a, c["rtype"][b])
    if op == "out":
        return "out %s %s" % (a, "null" if b == NONE else b)
    if op == "provide":
        return "%s %s %s" % ("provide" if c["impl"][a] == "sink" else "xprovide", a, b)
    if op == "rel":
        return "rel %s" % a
    if op == "loop":
        return "loop %s" % a
    if op == "attach":
        return "xattach %s" % a
    raise vlib.ToolError("unknown model command %r" % (cmd,))


def cmd_text(cmd):
    return "%s(%s)" % (cmd["op"], ",".join(x for x in (cmd["a"], cmd["b"]) if x != NONE) or "")


def C(op, a=NONE, b=NONE):
    return {"op": op, "a": a, "b": b}


def epilogue(c, reg, hnd):
    """Commands that bring any state to rest (all of them legal commands of the
    specification, they are part of the validated history), then the teardown
    of what the model never releases."""
    judged = []
    for r in c["reqs"]:
        if c["owner"][r] == NONE and reg.get(r, NONE) != NONE:
            judged.append(C("unreg", reg[r], r))
    if any(k == "qsrc" for k in c["kind"].values()):
        for _ in range(3):
            judged += [C("loop", "B"), C("loop", "A")]
    rest = []
    for n in c["nodes"]:
        if n in hnd:
            if c["kind"][n] in ("fwd", "sink"):
                judged.append(C("rel", n))
            else:
                rest.append("rel %s" % n)
    return judged, rest + ["xreset"]


# ------------------------------------------------------------ harness output
NAME_RE = re.compile(r"^(?:proxy(\d+)\((\w+)\)|inner\(type(-?\d+)\)|(\w+))$")


def parse_name(tok):
    m = NAME_RE.match(tok)
    if not m:
        raise vlib.ToolError("pipe_driver: unexpected request name %r" % tok)
    if m.group(2):
        return m.group(2), int(m.group(1))
    if m.group(3) is not None:
        return "?%s" % m.group(3), -1
    return m.group(4), 0


def parse_block(lines):
    """Output lines of one command -> (events, ret)."""
    evs, ret = [], None
    for l in lines:
        f = l.split()
        if not f:
            continue
        if f[0] == "sink" and len(f) >= 4 and f[2] in ("register", "unregister"):
            r, d = parse_name(f[3])
            evs.append(["sreg" if f[2] == "register" else "sunreg", f[1], r, d])
        elif f[0] == "sink" and len(f) >= 4 and f[2] == "freed":
            evs.append(["freed", f[1], int(f[3].split("=")[1])])
        elif f[0] == "ev" and len(f) >= 4 and f[2] == "provide_request":
            r, d = parse_name(f[3])
            evs.append(["pr", f[1], r, d])
        elif f[0] == "provide" and len(f) >= 3:
            r, d = parse_name(f[2])
            evs.append(["prov", f[1], r, d])
        elif f[0] == "reqcb" and len(f) >= 5 and f[2] == "provided":
            evs.append(["cb", f[1], f[3], f[4]])
        elif f[0] == "ret":
            ret = f[1:]
    return evs, ret


def vproj(evs):
    """What the statement talks about: registrations at the sinks, call-backs of the
    original requests, sink releases - as a sorted list of string triples."""
    out = []
    for e in evs:
        if e[0] in ("sreg", "sunreg"):
            out.append([e[0], e[1], e[2]])
        elif e[0] == "cb":
            out.append(["cb", e[1], e[2]])
        elif e[0] == "freed":
            out.append(["freed", e[1], str(e[2])])
    return sorted(out)


def detail(c, evs, code):
    """Full event list for the drift comparison.  Requests seen by the driver's own
    probe beyond a queue have no name (inner(typeN)): both sides are reduced to the
    request type there."""
    anon = set((e[0], e[1]) for e in code if e[0] in ("pr", "prov") and str(e[2]).startswith("?"))
    out = []
    for e in evs:
        e = list(e)
        if e[0] in ("pr", "prov") and (e[0], e[1]) in anon and not str(e[2]).startswith("?"):
            e[2], e[3] = "?%d" % TYPEIDX[c["rtype"][e[2]]], -1
        out.append(e)
    return out


class Script:
    """One execution: scenario, judged commands (model records), teardown lines."""
    def __init__(self, c, cmds, rest, pred=None, nsteps=None, tag=""):
        self.c, self.cmds, self.rest, self.pred, self.tag = c, cmds, rest, pred, tag
        self.nsteps = len(cmds) if nsteps is None else nsteps     # commands compared with predictions
        self.pro = prologue(c)

    def lines(self):
        return self.pro + [cmd_line(self.c, x) for x in self.cmds] + self.rest


def run_batch(ctx, binp, scripts, timeout=150):
    """Runs the scripts in ONE harness process (xreset between them).  Returns
    (results, crash): results[i] = list of (events, ret) per judged command, or
    None if the script did not complete; crash = None | (index, rc, stderr tail)."""
    text = []
    for s in scripts:
        text += s.lines()
    r = ctx.run([binp, "0"], input="\n".join(text) + "\nquit\n", timeout=timeout, env=ENV)
    blocks, cur = [], None
    for l in r.stdout.splitlines():
        if l.startswith("cmd "):
            cur = []
            blocks.append(cur)
        elif cur is not None:
            cur.append(l)
    res, pos, crash = [], 0, None
    for i, s in enumerate(scripts):
        n = len(s.pro) + len(s.cmds) + len(s.rest)
        if pos + n > len(blocks) or not any(x.startswith("ret") for x in blocks[pos + n - 1]):
            err = (r.stderr or "")[-4000:]
            if r.returncode == 124:
                done = max(0, len(blocks) - pos - len(s.pro) - 1)
                err = "the harness does not return (time-out) after %d commands of the script" % done
            crash = (i, r.returncode, err)
            break
        for k, b in enumerate(blocks[pos:pos + len(s.pro)]):
            if not any(x.split()[:2] == ["ret", "0"] for x in b):
                raise vlib.ToolError("pipe_driver: prologue command %r failed: %r" % (s.pro[k], b))
        out = [parse_block(b) for b in blocks[pos + len(s.pro):pos + len(s.pro) + len(s.cmds)]]
        last = blocks[pos + n - 1]
        tear = [x for x in last if x.startswith("ret")]
        ok = tear and tear[0].startswith("ret 0 pumpsA=0 pumpsB=0")
        res.append((out, ok, tear[0] if tear else ""))
        pos += n
        if not ok:
            # the tables could not be wiped: nothing after this script is reliable
            crash = (i, -1000, "teardown failed: " + (tear[0] if tear else "?"))
            break
    if crash is None and r.returncode == 124:
        raise vlib.ToolError("pipe_driver timed out after completing a batch of %d scripts" % len(scripts))
    if crash is None and r.returncode != 0:
        crash = (None, r.returncode, (r.stderr or "")[-4000:])      # e.g. a leak reported at exit
    return res, crash


def crash_summary(rc, stderr):
    for l in stderr.splitlines():
        if l.startswith("SUMMARY:") or "runtime error:" in l or "Assertion" in l or l.startswith("teardown failed") \
                or l.startswith("the harness does not return"):
            return l.strip()
    return "exit status %d" % rc


def history(s, out):
    """Recorded execution -> events for Requests_Trace."""
    h = [{"e": "Reset", "cfg": s.c}]
    idx = []
    for k, (cmd, (evs, ret)) in enumerate(zip(s.cmds, out)):
        if cmd["op"] == "provide" and ret and ret[0] in ("-1", "-2"):
            continue            # the sink does not hold the request: the command did nothing
        if cmd["op"] in ("reg", "unreg") and ret and ret[0] == "-3":
            continue            # a one-shot request its call-back unregistered meanwhile: nothing was called
        h.append({"e": cmd["op"], "a": cmd["a"], "b": cmd["b"], "evs": vproj(evs)})
        idx.append(k)
    return h, idx


# ------------------------------------------------------------ state graph
def skey(st):
    return json.dumps(st, sort_keys=True, separators=(",", ":"))


class Graph:
    def __init__(self, res):
        self.scn = {}
        for c in res.beh("SCN"):
            self.scn[c["id"]] = c
        self.nodes, self.adj, self.order = {}, {}, []
        n = 0
        keys = {}
        for e in res.beh("EDGE"):
            ku, kv = skey(e["from"]), skey(e["to"])
            ku, kv = keys.setdefault(ku, ku), keys.setdefault(kv, kv)     # one string object per state
            if ku not in self.adj:
                self.order.append(ku)
            self.nodes.setdefault(ku, e["from"])
            self.nodes.setdefault(kv, e["to"])
            self.adj.setdefault(ku, []).append((e["cmd"], e["evs"], e["ret"], kv))
            n += 1
        self.nedges = n
        self.inits = [k for k in self.order if self.is_init(self.nodes[k])]
        self.parent = {k: None for k in self.inits}
        queue = list(self.inits)
        while queue:
            u = queue.pop(0)
            for i, (cmd, evs, ret, v) in enumerate(self.adj.get(u, [])):
                if v not in self.parent:
                    self.parent[v] = (u, i)
                    queue.append(v)

    def is_init(self, st):
        c = self.scn[st["id"]]
        return st["g"] == 0 and not st["q"] and not st["D"] and not st["U"] and \
            all(v == NONE for v in st["r"].values()) and all(not v for v in st["s"].values()) and \
            all(not v for v in st["l"].values()) and \
            all(st["o"][n] == c["out0"][n] for n in st["o"]) and \
            sorted(st["h"]) == sorted(n for n in c["nodes"] if c["hnd0"][n]) and \
            sorted(st["a"]) == sorted(c["nodes"])

    def path_to(self, k):
        steps = []
        while self.parent[k] is not None:
            u, i = self.parent[k]
            steps.append((u, i))
            k = u
        steps.reverse()
        return k, steps

    def near_untested(self, start, remaining, depth):
        """Bounded BFS from start to a state that still has an untested transition."""
        seen = {start: None}
        queue = [(start, 0)]
        while queue:
            u, d = queue.pop(0)
            if remaining.get(u):
                steps = []
                k = u
                while seen[k] is not None:
                    steps.append(seen[k])
                    k = seen[k][0]
                steps.reverse()
                return steps
            if d >= depth:
                continue
            for i, (_, _, _, v) in enumerate(self.adj.get(u, [])):
                if v not in seen:
                    seen[v] = (u, i)
                    queue.append((v, d + 1))
        return None

    def tours(self, rng, maxlen):
        """Walks covering every transition at least once.  A tour goes from an initial
        state along a shortest path to a state with untested transitions, then keeps
        taking an untested transition of the current state (random choice), moving to a
        near state that has one when the current state has none."""
        remaining = {u: list(range(len(self.adj[u]))) for u in self.adj}
        todo = [u for u in self.order if u in self.adj]
        if any(u not in self.parent for u in todo):
            raise vlib.ToolError("state graph: a state is not reachable from an initial state")
        res = []
        ti = 0
        while True:
            while ti < len(todo) and not remaining[todo[ti]]:
                ti += 1
            if ti >= len(todo):
                break
            root, steps = self.path_to(todo[ti])
            steps = list(steps)
            u = todo[ti]
            for st in steps:
                if st[1] in remaining[st[0]]:
                    remaining[st[0]].remove(st[1])
            while len(steps) < maxlen:
                cand = remaining.get(u)
                if cand:
                    i = cand.pop(rng.below(len(cand)))
                    steps.append((u, i))
                    u = self.adj[u][i][3]
                    continue
                more = self.near_untested(u, remaining, 3)
                if not more:
                    break
                for st in more:
                    steps.append(st)
                    if st[1] in remaining[st[0]]:
                        remaining[st[0]].remove(st[1])
                    u = self.adj[st[0]][st[1]][3]
            res.append((root, steps))
        return res

    def script_of(self, root, steps, tag=""):
        c = self.scn[self.nodes[root]["id"]]
        cmds = [self.adj[u][i][0] for u, i in steps]
        pred = [(self.adj[u][i][1], self.adj[u][i][2]) for u, i in steps]
        last = self.nodes[self.adj[steps[-1][0]][steps[-1][1]][3]] if steps else self.nodes[root]
        judged, rest = epilogue(c, last["r"], last["h"])
        return Script(c, cmds + judged, rest, pred=pred, nsteps=len(cmds), tag=tag)


# ------------------------------------------------------------ code -> spec
def validate(ctx, pairs, tag, count=True, max_reject=3):
    """pairs: [(Script, per-command output)].  Returns [(pair index, command index, info)]."""
    hs = [history(s, out) for s, out in pairs]
    before = ctx.traces
    rej = ctx.validate_histories("Requests_Trace", "Requests_Trace.cfg", [h for h, _ in hs],
                                 tag="req_" + re.sub(r"\W", "_", tag), max_reject=max_reject)
    if not count:
        ctx.traces = before
    res = []
    for i, line, inv in rej:
        h, idx = hs[i]
        if line < 2 or line - 2 >= len(idx):
            raise vlib.ToolError("trace validation: rejected line %d outside execution %d" % (line, i))
        res.append((i, idx[line - 2], {"invariants": inv, "event": h[line - 1]}))
    return res, sum(len(h) for h, _ in hs)


def shrink(ctx, binp, s, k):
    """Greedy removal of commands from a rejected execution: each round runs every
    script with one command less in one harness process and validates them in one
    TLC run; the first one that is still rejected becomes the new script."""
    cur = Script(s.c, s.cmds[:k + 1], None)
    for _ in range(12):
        scripts = []
        for j in range(len(cur.cmds) - 1):
            x = close_script(cur.c, cur.cmds[:j] + cur.cmds[j + 1:])
            if x is not None:
                scripts.append(x)
        if not scripts:
            break
        res, crash = run_batch(ctx, binp, scripts)
        pairs = [(x, r[0]) for x, r in zip(scripts, res)]
        if not pairs:
            break
        rej, _ = validate(ctx, pairs, "shrink", count=False, max_reject=1)
        rej = [r for r in rej if r[1] < pairs[r[0]][0].nsteps]
        if not rej:
            break
        x = pairs[rej[0][0]][0]
        cur = Script(x.c, x.cmds[:rej[0][1] + 1], None)
    return cur


def bookkeeping(c, cmds):
    """Replays the generator's own book-keeping (who holds a handle, where a request is
    registered) over a command list; None if a command is not one the generator could emit."""
    hnd = set(n for n in c["nodes"] if c["hnd0"][n])
    reg = {r: NONE for r in c["reqs"]}
    pos = {n: i for i, n in enumerate(c["nodes"])}
    for x in cmds:
        op, a, b = x["op"], x["a"], x["b"]
        if op == "reg":
            if a not in hnd or a not in c["entry"] or reg[b] != NONE or c["owner"][b] != NONE:
                return None
            reg[b] = a
        elif op == "unreg":
            if reg.get(b) != a:
                return None
            reg[b] = NONE
        elif op == "require":
            if c["owner"][b] != a or a not in hnd:
                return None
        elif op == "out":
            if a not in hnd or not c["canout"][a]:
                return None
            if b != NONE and (b not in hnd or not c["canin"][b] or pos[b] <= pos[c["outvia"][a]]
                              or c["side"][b] != c["side"][c["outvia"][a]]):
                return None
        elif op == "attach":
            if a not in hnd or c["kind"][a] != "qsink":
                return None
        elif op == "rel":
            if a not in hnd or c["kind"][a] not in ("fwd", "sink") or \
                    any(reg[r] == a for r in c["reqs"] if c["owner"][r] == NONE):
                return None
            hnd.discard(a)
    return reg, hnd


def close_script(c, cmds, tag=""):
    bk = bookkeeping(c, cmds)
    if bk is None:
        return None
    judged, rest = epilogue(c, bk[0], bk[1])
    return Script(c, list(cmds) + judged, rest, nsteps=len(cmds), tag=tag)


def gen_random(rng, c, n):
    """Seeded random command script over scenario c (only commands whose pre-conditions
    the generator can know from its own book-keeping; a provide on a sink that does not
    hold the request is dropped from the history afterwards)."""
    cmds = []
    hnd = set(x for x in c["nodes"] if c["hnd0"][x])
    reg = {r: NONE for r in c["reqs"]}
    pos = {x: i for i, x in enumerate(c["nodes"])}
    app = [r for r in c["reqs"] if c["owner"][r] == NONE]
    own = [r for r in c["reqs"] if c["owner"][r] != NONE]
    holds = [s for s in c["nodes"] if c["kind"][s] == "sink" and c["mode"][s] == "hold"]
    queue = any(k == "qsrc" for k in c["kind"].values())
    # the out-of-band queues of the real queue hold 255 messages (a documented limit, not modelled):
    # an upper bound of what may be pending is kept below 150 by running the loops
    pend_d, pend_u = 0, 0
    for _ in range(n):
        while queue and (pend_d > 150 or pend_u > 150):
            which = "B" if pend_d > 150 else "A"
            for _k in range(60):
                cmds.append(C("loop", which))
            if which == "B":
                pend_d -= 60
            else:
                pend_u -= 60
        w = rng.below(100)
        x = None
        if w < 18:
            cand = [(p, r) for r in app if reg[r] == NONE for p in sorted(c["entry"]) if p in hnd]
            if cand:
                p, r = rng.choice(cand)
                x = C("reg", p, r)
                reg[r] = p
        elif w < 30:
            cand = [r for r in app if reg[r] != NONE]
            if cand:
                r = rng.choice(cand)
                x = C("unreg", reg[r], r)
                reg[r] = NONE
        elif w < 38:
            cand = [r for r in own if c["owner"][r] in hnd]
            if cand:
                r = rng.choice(cand)
                x = C("require", c["owner"][r], r)
        elif w < 62:
            ps = [p for p in c["nodes"] if p in hnd and c["canout"][p]]
            if ps:
                p = rng.choice(ps)
                m = c["outvia"][p]
                qs = [q for q in c["nodes"] if q in hnd and c["canin"][q] and pos[q] > pos[m]
                      and c["side"][q] == c["side"][m]]
                q = NONE if (not qs or rng.chance(1, 5)) else rng.choice(qs)
                x = C("out", p, q)
        elif w < 78:
            if holds:
                x = C("provide", rng.choice(holds), rng.choice(c["reqs"]))
        elif w < 84:
            cand = [p for p in c["nodes"] if p in hnd and c["kind"][p] in ("fwd", "sink")
                    and not any(reg[r] == p for r in app)]
            if cand:
                p = rng.choice(cand)
                x = C("rel", p)
                hnd.discard(p)
        elif queue and w < 88:
            qs = [p for p in c["nodes"] if c["kind"][p] == "qsink" and p in hnd]
            if qs:
                x = C("attach", rng.choice(qs))
        elif queue:
            x = C("loop", "A" if rng.chance(1, 2) else "B")
        if x is not None:
            cmds.append(x)
            if x["op"] in ("reg", "unreg", "require", "out", "rel"):
                pend_d += 2 * len(c["reqs"])
            elif x["op"] == "provide":
                pend_u += 1
            elif x["op"] == "loop" and x["a"] == "B":
                pend_d = max(0, pend_d - 1)
                pend_u += 1         # a registration processed downstream may be answered by a probe
            elif x["op"] == "loop":
                pend_u = max(0, pend_u - 1)
    return close_script(c, cmds, tag="random")


# ------------------------------------------------------------ reporting
def key_of(s, k):
    return "%s;%s" % (scn_sig(s.c), ",".join(cmd_text(x) for x in s.cmds[:k + 1]))


def scn_sig(c):
    return "/".join("%s:%s%s" % (n, c["impl"][n], "(" + c["mode"][n] + ")" if c["kind"][n] == "sink" else "")
                    for n in c["nodes"] if c["impl"][n] != "inner")


def confirm_and_report(ctx, binp, s, k, why, source):
    """s fails at judged command k (V-projection differs from TLC's prediction, or the
    history is rejected).  Re-run alone; confirm with the trace specification; shrink."""
    one = close_script(s.c, s.cmds[:k + 1]) or Script(s.c, s.cmds[:k + 1], ["xreset"])
    res, crash = run_batch(ctx, binp, [one])
    if crash is not None and not res:
        return report_crash(ctx, binp, one, crash, source)
    rej, _ = validate(ctx, [(one, res[0][0])], "confirm", count=False, max_reject=1)
    if not rej:
        raise vlib.ToolError("disagreement did not reproduce when re-run alone (%s): %s / %s"
                             % (why, scn_sig(s.c), [cmd_text(x) for x in one.cmds]))
    small = shrink(ctx, binp, one, rej[0][1])
    res2, _ = run_batch(ctx, binp, [close_script(small.c, small.cmds) or small])
    rej2, _ = validate(ctx, [(close_script(small.c, small.cmds) or small, res2[0][0])], "final", count=False,
                       max_reject=1)
    info = rej2[0][2] if rej2 else rej[0][2]
    kk = rej2[0][1] if rej2 else len(small.cmds) - 1
    key = key_of(small, kk)
    ctx.violation(key,
                  "scenario %s: the recorded execution of %s is not a behaviour of Requests: at '%s' the "
                  "real code shows %s (%s; %s)"
                  % (scn_sig(small.c), [cmd_text(x) for x in small.cmds[:kk + 1]], cmd_text(small.cmds[kk]),
                     json.dumps(info["event"].get("evs")), why, "invariants " + str(info["invariants"])
                     if info["invariants"] else "events differ from the specification's"),
                  {"cfg": small.c, "cmds": small.cmds[:kk + 1], "stdin": (close_script(small.c, small.cmds[:kk + 1])
                                                                          or small).lines(),
                   "source": source})
    return True


def report_crash(ctx, binp, s, crash, source):
    res, again = run_batch(ctx, binp, [s], timeout=30)
    if again is None or again[0] is None:       # (None, ..) = completed, only a leak report at exit
        raise vlib.ToolError("harness died (rc=%s) but not when the script is re-run alone: %s\n%s"
                             % (crash[1], [cmd_text(x) for x in s.cmds], crash[2]))
    # shrink: drop commands while it still dies
    cur = s
    budget = 40 if again[1] != 124 else 0       # a hang is not shrunk (each attempt costs the time-out)
    changed = True
    while changed and budget > 0:
        changed = False
        for j in range(len(cur.cmds)):
            cand = close_script(cur.c, cur.cmds[:j] + cur.cmds[j + 1:cur.nsteps])
            budget -= 1
            if cand is None or budget <= 0:
                continue
            _, cr = run_batch(ctx, binp, [cand], timeout=30)
            if cr is not None and cr[0] is not None:
                cur, changed, again = cand, True, cr
                break
    key = "%s;crash;%s" % (scn_sig(cur.c), ",".join(cmd_text(x) for x in cur.cmds[:cur.nsteps]))
    ctx.violation(key, "scenario %s: the real code crashes / is stopped by the sanitizer / cannot be torn down "
                  "during the legal command sequence %s: %s"
                  % (scn_sig(cur.c), [cmd_text(x) for x in cur.cmds], crash_summary(again[1], again[2])),
                  {"cfg": cur.c, "cmds": cur.cmds, "stdin": cur.lines(), "stderr": again[2][-3000:],
                   "source": source})
    return True


def run_all(ctx, binp, scripts, source, chunk=400):
    """Runs scripts in batches; the first crash is attributed to its script and reported (the
    scripts after it are not run: their results stay None)."""
    out = [None] * len(scripts)
    i = 0
    while i < len(scripts):
        part = scripts[i:i + chunk]
        res, crash = run_batch(ctx, binp, part)
        for j, x in enumerate(res):
            out[i + j] = x
        if crash is None:
            i += len(part)
            continue
        if crash[0] is None:
            # every script completed and was torn down, the process exit status is LeakSanitizer's:
            # memory management is not what C12 states (and such reports are not attributable to
            # one script reliably): recorded, not judged
            ctx.extra.setdefault("leak_reports_not_judged", [])
            if len(ctx.extra["leak_reports_not_judged"]) < 3:
                ctx.extra["leak_reports_not_judged"].append({"phase": source, "summary": crash_summary(crash[1], crash[2])})
            i += len(part)
            continue
        report_crash(ctx, binp, part[crash[0]], crash, source)
        out[i + crash[0]] = None
        break           # one crash per phase is reported; what was not run stays None
    return out


# ------------------------------------------------------------ spec -> code
def replay_graph(ctx, binp, g, tag, maxlen, sample_validate):
    rng = vlib.Rng(ctx.seed * 1000003 + len(tag))
    tours = g.tours(rng, maxlen)
    scripts = [g.script_of(root, steps, tag=tag) for root, steps in tours]
    outs = run_all(ctx, binp, scripts, "tours " + tag)
    bad, drift, nsteps = [], None, 0
    for s, o in zip(scripts, outs):
        if o is None:
            continue
        for k in range(s.nsteps):
            evs, ret = o[0][k]
            pevs, pret = s.pred[k]
            nsteps += 1
            if vproj(evs) != vproj(pevs):
                bad.append((k, s))
                break
            if drift is None and (detail(s.c, evs, evs) != detail(s.c, pevs, evs) or
                                  (s.cmds[k]["op"] != "loop" and (ret or ["?"])[0] != str(pret))):
                drift = {"scenario": s.c["id"], "commands": [cmd_text(x) for x in s.cmds[:k + 1]],
                         "model": {"evs": pevs, "ret": pret}, "code": {"evs": evs, "ret": ret}}
    ctx.evaluations += nsteps
    ctx.traces += sum(1 for o in outs if o is not None)
    if bad and len(ctx.violations) <= BASEV[0]:
        bad.sort(key=lambda x: x[0])
        k, s = bad[0]
        confirm_and_report(ctx, binp, s, k, "%d of %d tours disagree with TLC's prediction" % (len(bad), len(scripts)),
                           "tours " + tag)
    # the same executions (with their epilogue) go through the trace specification later
    pairs = [(s, o[0]) for s, o in zip(scripts, outs) if o is not None]
    if sample_validate is not None and len(pairs) > sample_validate:
        step = len(pairs) / float(sample_validate)
        pairs = [pairs[int(i * step)] for i in range(sample_validate)]
    return {"graph": tag, "states": len(g.nodes), "transitions": g.nedges, "tours": len(scripts),
            "commands_compared": nsteps, "tours_disagreeing": len(bad),
            "tours_trace_validated": len(pairs)}, drift, scripts, outs, pairs


def random_histories(ctx, binp, scns, nexec, length, tag, tour_pairs):
    """Seeded random scripts on every scenario; their executions and the sampled tour
    executions are validated by Requests_Trace in one TLC run."""
    rng = vlib.Rng(ctx.seed * 7919 + 17)
    scripts = []
    for k in range(nexec):
        c = scns[k % len(scns)]
        s = gen_random(rng, c, 10 + rng.below(length))
        if s is not None:
            scripts.append(s)
    outs = run_all(ctx, binp, scripts, "random " + tag)
    pairs = [(s, o[0]) for s, o in zip(scripts, outs) if o is not None]
    allp = pairs + list(tour_pairs)
    # vacuity canary: one accepted-looking execution with one observed event removed goes last;
    # Requests_Trace must reject it
    canary = None
    for sc, out in pairs:
        for k, (evs, ret) in enumerate(out[:sc.nsteps]):
            if vproj(evs):
                drop = [e for e in evs if e[0] in ("sreg", "sunreg", "cb", "freed")][0]
                bad_out = list(out)
                bad_out[k] = ([e for e in evs if e is not drop], ret)
                canary = (sc, bad_out)
                break
        if canary:
            break
    if canary:
        allp = allp + [canary]
    before = ctx.traces
    rej, nev = validate(ctx, allp, "random_" + tag)
    if canary:
        hit = [r for r in rej if r[0] == len(allp) - 1]
        rej = [r for r in rej if r[0] != len(allp) - 1]
        if not hit and len(rej) < 3:
            raise vlib.ToolError("vacuity: a recorded execution with one observed event removed was accepted "
                                 "by Requests_Trace")
        ctx.extra["corrupted_trace_rejected"] = bool(hit)
        allp = allp[:-1]
    ctx.traces = before + len(pairs) - sum(1 for i, _, _ in rej if i < len(pairs))   # tours were counted when replayed
    ctx.evaluations += nev
    if rej and len(ctx.violations) <= BASEV[0]:
        i, k, info = rej[0]
        confirm_and_report(ctx, binp, allp[i][0], k, "recorded execution rejected by Requests_Trace",
                           ("random " + tag) if i < len(pairs) else "tour")
    return {"set": tag, "random_executions": len(pairs), "tour_executions": len(tour_pairs), "events": nev,
            "rejected": len(rej)}


# ------------------------------------------------------------ full out-of-band queue
def overflow_scripts(scn, rng, nrand):
    """Directed scripts that fill the downstream out-of-band queue of the real queue (255 messages) so that
    one register / unregister message is refused, then drain it; a seeded random tail follows.  The counts
    are exact because the scripts start from a fresh scenario and only use commands whose number of
    messages is known (one per reg / unreg that crosses the queue sink, one popped per loop B)."""
    out = []
    for sid in ("S", "Q"):
        c = scn.get(sid)
        if c is None:
            continue
        app = [r for r in c["reqs"] if c["owner"][r] == NONE]
        if len(app) < 2:
            continue
        ra, rb = app[0], app[1]
        if sid == "S":
            e, plumb = "qk", [C("out", "qs", "s0")]
        else:
            e, plumb = "p0", [C("out", "p0", "qk"), C("out", "qs", "p1"), C("out", "p1", "s0")]
        hold = "s0"

        def burst(n):
            x = []
            for _ in range(n):
                x += [C("reg", e, rb), C("unreg", e, rb)]
            return x
        drain = [C("loop", "B")] * (OOB + 2) + [C("loop", "A")] * 6
        variants = []
        # the unregistration of a request that is registered beyond the queue is refused
        variants.append(plumb + [C("reg", e, ra), C("loop", "B")] + burst(127) + [C("reg", e, rb), C("unreg", e, ra),
                        C("provide", hold, ra), C("loop", "A"), C("loop", "A")] + drain +
                        [C("provide", hold, ra), C("loop", "A"), C("reg", e, ra), C("loop", "B"), C("provide", hold, ra),
                         C("loop", "A"), C("loop", "A")])
        # the same while its registration is still under way
        variants.append(plumb + [C("reg", e, ra)] + burst(127) + [C("unreg", e, ra)] + drain +
                        [C("provide", hold, ra), C("loop", "A"), C("loop", "A")])
        # a registration is refused, unregistered later, registered again
        variants.append(plumb + burst(127) + [C("reg", e, rb), C("reg", e, ra), C("provide", hold, ra), C("unreg", e, ra)]
                        + drain + [C("reg", e, ra), C("loop", "B"), C("provide", hold, ra), C("loop", "A"), C("loop", "A")])
        # one slot left: the registration passes, the unregistration does not
        variants.append(plumb + burst(127) + [C("reg", e, ra), C("unreg", e, ra), C("loop", "B"), C("unreg", e, rb)]
                        + drain + [C("provide", hold, ra), C("loop", "A"), C("loop", "A")])
        for v in variants:
            sc = close_script(c, v, tag="overflow")
            if sc is not None:
                out.append(sc)
        for _ in range(nrand):
            k = rng.below(len(variants))
            tail = gen_random(rng, c, 6 + rng.below(20))
            sc = close_script(c, variants[k] + (tail.cmds[:tail.nsteps] if tail is not None else []), tag="overflow+random")
            if sc is not None:
                out.append(sc)
    return out


def overflow_histories(ctx, binp, scn):
    rng = vlib.Rng(ctx.seed * 104729 + 5)
    scripts = overflow_scripts(scn, rng, 4 if ctx.quick else 60)
    if not scripts:
        raise vlib.ToolError("no queue scenario for the full-queue scripts")
    outs = run_all(ctx, binp, scripts, "overflow", chunk=20)
    pairs = [(s, o[0]) for s, o in zip(scripts, outs) if o is not None]
    refused = sum(1 for s, o in pairs for (evs, ret) in o if ret and ret[0] == "8")
    rej, nev = validate(ctx, pairs, "overflow")
    ctx.evaluations += nev
    if pairs and not refused:
        raise vlib.ToolError("vacuity: no register / unregister command of the full-queue scripts was refused "
                             "(UBASE_ERR_BUSY) by the real queue sink")
    if rej and len(ctx.violations) <= BASEV[0]:
        i, k, info = rej[0]
        s = pairs[i][0]
        # no shrinking (the counts matter): reported as recorded, after a re-run
        res, crash = run_batch(ctx, binp, [s])
        rej2, _ = validate(ctx, [(s, res[0][0])], "overflow_confirm", count=False, max_reject=1) if res else ([], 0)
        if not rej2:
            raise vlib.ToolError("full-queue script: the rejection did not reproduce when re-run alone")
        k2, info2 = rej2[0][1], rej2[0][2]
        short = [cmd_text(x) for x in s.cmds[:k2 + 1] if x["op"] != "loop"]
        comp, prev, n = [], None, 0
        for t in short + [None]:
            if t == prev:
                n += 1
                continue
            if prev is not None:
                comp.append(prev if n == 1 else "%s x%d" % (prev, n))
            prev, n = t, 1
        key = "%s;full-queue;%s" % (scn_sig(s.c), cmd_text(s.cmds[k2]))
        ctx.violation(key, "scenario %s with the out-of-band queue of the real queue filled (255 messages): at '%s' "
                      "the real code shows %s, which is not a behaviour of Requests (%s); commands (loops omitted): %s"
                      % (scn_sig(s.c), cmd_text(s.cmds[k2]), json.dumps(info2["event"].get("evs")),
                         "invariants " + str(info2["invariants"]) if info2["invariants"] else "events differ from the specification's",
                         ", ".join(comp[-14:])),
                      {"cfg": s.c, "cmds": s.cmds[:k2 + 1], "stdin": s.lines(), "source": "overflow"})
    return {"scripts": len(pairs), "events": nev, "commands_refused_by_the_full_queue": refused, "rejected": len(rej)}


# ------------------------------------------------------------ suspected defect (bins)
def bin_counterexample(ctx, binp, scn, r):
    """TLC's counterexample of the fall-through model (r = the TLC result), replayed on the
    real bin pipe.  Returns True if the real code follows it (violation reported)."""
    cex = r.beh("CEX")
    if "CexNoCallbackAfterUnregister" not in r.violated or not cex:
        raise vlib.ToolError("fall-through model of the bin pipes: TLC found no counterexample (violated=%s)"
                             % r.violated)
    c = scn[cex[0]["id"]]
    cmds = [x["c"] for x in cex[0]["path"]]
    pred = [(x["evs"], x["ret"]) for x in cex[0]["path"]]
    s = close_script(c, cmds, tag="binfall")
    if s is None:
        raise vlib.ToolError("counterexample is not a script the harness can run: %r" % cmds)
    res, crash = run_batch(ctx, binp, [s])
    info = {"commands": [cmd_text(x) for x in cmds]}
    if crash is not None and not res:
        report_crash(ctx, binp, s, crash, "counterexample of the fall-through model")
        return True, info
    follows = all(vproj(res[0][0][k][0]) == vproj(pred[k][0]) for k in range(len(cmds)))
    info["real_code_follows"] = follows
    if not follows:
        return False, info
    # the code does what the fall-through model says: the call-back after unregistration is real
    rej, _ = validate(ctx, [(s, res[0][0])], "binfall", count=False, max_reject=1)
    if not rej:
        raise vlib.ToolError("the real code follows the fall-through counterexample but Requests_Trace accepts it")
    last = res[0][0][len(cmds) - 1][0]
    key = "%s;%s" % (scn_sig(c), ",".join(cmd_text(x) for x in cmds))
    ctx.violation(key,
                  "bin pipe %s: a request registered while nobody downstream answers it is registered a second "
                  "time on the last inner pipe (the bin's control function falls through to the bin-output "
                  "helper); unregistering removes only the first registration, and the call-back is invoked "
                  "AFTER the request was unregistered: %s -> %s"
                  % (scn_sig(c), [cmd_text(x) for x in cmds], json.dumps(vproj(last))),
                  {"cfg": c, "cmds": cmds, "stdin": s.lines(), "source": "TLC counterexample of MCRequests_binfall.cfg"})
    return True, info


# --------------------------------------------------------------------- replay
def replay(ctx, rp):
    """bin/check C12 --replay replays/C12_xxx.json"""
    jvm_env()
    if rp["replay"].get("stage") == "bininput":
        return c12_bininput.replay(ctx, rp["replay"])
    if rp["replay"].get("stage") == "ubufreq":
        return c12_ubufreq.replay(ctx, rp["replay"])
    binp = build(ctx)
    c, cmds = rp["replay"]["cfg"], rp["replay"]["cmds"]
    s = close_script(c, cmds) or Script(c, cmds, ["xreset"])
    res, crash = run_batch(ctx, binp, [s])
    if crash is not None and not res:
        print("VIOLATION property=C12 reproduced: %s dies: %s" % ([cmd_text(x) for x in cmds],
                                                                 crash_summary(crash[1], crash[2])))
        return 1
    for x, (evs, ret) in zip(s.cmds, res[0][0]):
        print("  %-22s -> %s ret=%s" % (cmd_text(x), json.dumps(vproj(evs)), ret))
    rej, _ = validate(ctx, [(s, res[0][0])], "replay", count=False, max_reject=1)
    if rej:
        print("VIOLATION property=C12 reproduced: Requests_Trace rejects command %d (%s): %s"
              % (rej[0][1], cmd_text(s.cmds[rej[0][1]]), json.dumps(rej[0][2]["event"])))
        return 1
    print("OK property=C12 replay not reproduced (history accepted)")
    return 0


# ------------------------------------------------------------------------ run
def exhaustive(ctx, cfg, actions, workers=2, timeout=1500):
    res = ctx.tlc("MCRequests", cfg, workers=workers, coverage=True, timeout=timeout, heap="3g")
    ctx.model_must_hold(res, cfg)
    # with a VIEW TLC reports per action "new distinct states : states generated"; the number of
    # times an action was taken is the second figure (an action that only leads to states found
    # earlier by another action has 0 new states)
    res.coverage = {k: (v[1], v[1]) for k, v in res.coverage.items()}
    ctx.require_coverage(res, actions)
    g = Graph(res)
    res.out, res.printed = "", []          # hundreds of MB in the thorough tier
    if g.nedges + len(g.inits) != res.generated:
        raise vlib.ToolError("%s: edge enumeration incomplete: %d EDGE lines + %d initial states, %d states generated"
                             % (cfg, g.nedges, len(g.inits), res.generated))
    if not (len(g.adj) <= res.distinct <= len(g.nodes)):
        raise vlib.ToolError("%s: graph reconstruction: %d expanded states, %d states, TLC found %d distinct states"
                             % (cfg, len(g.adj), len(g.nodes), res.distinct))
    return g


def parallel(jobs, n):
    """Runs the (TLC) jobs n at a time; returns {name: result}; the first failure is re-raised."""
    import concurrent.futures
    out = {}
    with concurrent.futures.ThreadPoolExecutor(max_workers=n) as ex:
        futs = {name: ex.submit(f) for name, f in jobs.items()}
        for name, fu in futs.items():
            out[name] = fu.result()
    return out


def jvm_env():
    # the machine is shared: keep each JVM to a few threads (TLC's default ParallelGC starts one GC
    # thread per core)
    os.environ.setdefault("JAVA_TOOL_OPTIONS", "-XX:ParallelGCThreads=2 -XX:CICompilerCount=2")


def run(ctx):
    import time
    jvm_env()
    t0 = [time.time()]
    phases = {}

    def lap(name):
        phases[name] = round(time.time() - t0[0], 1)
        t0[0] = time.time()
        ctx.extra["phase_seconds"] = phases
    binp = build(ctx)
    lap("build")
    ctx.assumptions += [
        "requests are registered by the application on the entry pipes of each scenario, or held by a pipe as "
        "its own request through the helper macros; a request is registered at most once at a time; the "
        "application does not drop its reference on a pipe while it has a request registered on it",
        "providers answer when told to (holding sink), or at registration time (probes, throwing sink); a probe "
        "is configured before the first registration",
        "the queue is crossed by one sink per queue; its two event loops are mock loops (harness/vloop.c) that "
        "run one iteration when the scenario says so; queue pipes are released only at the end; a register / "
        "unregister message refused by a full out-of-band queue (255 messages) takes the request out of the "
        "sentences about forwarding - only 'no call-back after unregister' is still required of it",
        "the order of events inside one command, proxy depths, provide_request events seen by probes and return "
        "codes are details: a difference there alone is recorded as model drift, not reported",
    ]
    ctx.trusted += ["TLC", "harness/pipe_driver.c + pipe_registry.c", "harness/pd_ext_c12.c", "harness/vloop.c",
                    "harness/shim/bitstream (only to compile upipe_ts_align's inner pipes)", "gcc ASan/UBSan/LSan"]

    # 1.-3. TLC runs (independent of each other: a few at a time)
    q = ctx.quick
    negs = NEG[:1] + NEG[2:3] + NEG[4:] if q else NEG
    jobs = {}
    if q:
        jobs["main"] = lambda: exhaustive(ctx, "MCRequests_q.cfg", [a for a in ACTIONS if a != "ActRel"] + QACTIONS
                                          + ["ActRel"])
    else:
        jobs["in"] = lambda: exhaustive(ctx, "MCRequests_t_in.cfg", ACTIONS)
        jobs["queue"] = lambda: exhaustive(ctx, "MCRequests_t_queue.cfg", [a for a in ACTIONS if a != "ActRel"] + QACTIONS)
        jobs["bin"] = lambda: exhaustive(ctx, "MCRequests_t_bin.cfg", [a for a in ACTIONS if a != "ActRequire"])
    jobs["full"] = lambda: ctx.tlc("MCRequests", "MCRequests_full.cfg", workers=2, timeout=900)
    jobs["binfall"] = lambda: ctx.tlc("MCRequests", "MCRequests_binfall.cfg", workers=1, count=False, timeout=600)
    jobs["scn"] = lambda: ctx.tlc("MCRequests", "MCRequests_scn.cfg", workers=1, count=False, timeout=300)
    for v, inv in negs:
        jobs["neg_" + v] = (lambda v=v: ctx.tlc("MCRequests", "MCRequests_neg_%s.cfg" % v, workers=1, count=False,
                                                timeout=600))
    done = parallel(jobs, 4 if q else 3)
    lap("tlc")
    ctx.exhaustive = True
    scn = {}
    for c in done["scn"].beh("SCN"):
        scn[c["id"]] = c
    ctx.extra["scenarios"] = {k: scn_sig(v) for k, v in sorted(scn.items())}
    bin_ids = [k for k in scn if any(scn[k]["nothrow"].values())]

    ctx.model_must_hold(done["full"], "Requests/full out-of-band queue (scenario T)")
    # 2. negative configurations
    for v, inv in negs:
        r = done["neg_" + v]
        if inv not in r.violated:
            raise vlib.ToolError("vacuity: broken variant %s not rejected by %s (violated=%s)" % (v, inv, r.violated))
    ctx.extra["negative_configs_rejected"] = [v for v, _ in negs]

    # 3. suspected defect of the bin pipes: TLC's counterexample on the real upipe_ts_align
    bin_bad, info = bin_counterexample(ctx, binp, scn, done["binfall"])
    ctx.extra["bin_fallthrough_counterexample"] = info
    lap("bin_counterexample")
    BASEV[0] = len(ctx.violations)

    # 4. spec -> code: tours over the state graphs
    walks, drift = [], None
    graphs = [("quick", done["main"])] if q else [("in-thread", done["in"]), ("queue", done["queue"])]
    if bin_bad:
        ctx.notes.append("the bin scenario (upipe_ts_align) is not replayed against the strict model: the real "
                         "code follows the fall-through counterexample reported above")
    elif not q:
        graphs.append(("bin", done["bin"]))
    sample, tour_pairs = None, []
    for tag, g in graphs:
        st, d, scripts, outs, pairs = replay_graph(ctx, binp, g, tag, 40 if q else 60, 150 if q else 1500)
        walks.append(st)
        tour_pairs += pairs
        drift = drift or d
        lap("tours_" + tag)
        cands = [(i, sc) for i, sc in enumerate(scripts[:400]) if outs[i] is not None]
        if sample is None and cands:
            i, sc = max(cands, key=lambda x: len(set(json.dumps(vproj(p[0])) for p in x[1].pred[:14])))
            sample = {"scenario": scn_sig(sc.c),
                      "commands": [cmd_text(x) for x in sc.cmds[:14]],
                      "predicted": [json.dumps(vproj(p[0])) for p in sc.pred[:14]],
                      "observed": [json.dumps(vproj(o[0])) for o in outs[i][0][:14]]}
    ctx.extra["tours"] = walks
    ctx.extra["model_drift"] = drift is not None
    if drift:
        ctx.extra["model_drift_first"] = drift
        ctx.notes.append("details of the real code differ from the model (model drift); the events the statement "
                         "talks about were compared command by command and decide")
    if sample:
        ctx.sample(sample)

    # 5. code -> spec: random histories on every scenario (+ the tour executions) through Requests_Trace
    scns = [scn[k] for k in sorted(scn) if not (bin_bad and k in bin_ids)]
    rh = [random_histories(ctx, binp, scns, 270 if q else 1800, 40 if q else 90, "all", tour_pairs)]
    ctx.extra["random_histories"] = rh
    lap("random")
    # 6. the out-of-band queue of the real queue filled to its 255 messages
    ctx.extra["full_queue"] = overflow_histories(ctx, binp, scn)
    lap("overflow")
    # 7. a bin whose first inner pipe is replaced / dropped while requests are registered on it
    c12_bininput.run_part(ctx)
    lap("bin_first_inner")
    # 8. the requester's end of a buffer manager request: the same request answered several times
    c12_ubufreq.run_part(ctx)
    lap("ubuf_mgr_requester")
